/-
  Fuzion.Props.C02World — C02 ("A purchase succeeds exactly when the seller's published terms are
  met") for whole transactions on the chain, **without** the "every emitted message can be
  delivered" hypothesis of `C02_step_if` / `C02_step_iff` (Props/C02.lean).

  Property text (C02): A purchase succeeds if and only if the listing is finalized, unsold and
  not past its expiration, the caller is the whitelisted buyer when one is set, the caller owns
  the bucket, the bucket's contents equal the ask exactly (same assets and amounts, nothing extra
  or missing, in any order) and the royalties due on each side do not exceed 50%.  Otherwise it is
  refused with no effect; behaviour at the exact expiration instant is not constrained.

  What is added here.  An accepted `buy` emits the paying bucket's old pending fee (a community-
  pool deposit) and the royalty payments of both sides (one bank send per coin and payee, one CW20
  transfer per token amount and payee).  `C02_buy_dispatch_ok` shows that the chain accepts all of
  them, in order, in every world satisfying the proved reachable invariants
    * `C01Inv w`  (Props/C01.lean: ids, well-formed records, "held = promised"), and
    * `CleanRecords w` (Props/C07.lean: recorded CW20 entries name honest tokens),
  by the budget argument `dispatchAll_ok_of_budget` (Lemmas/WorldLemmas.lean):
    – each message is `deliverable`: the fee coin of a well-formed record is non-zero and deposited
      by the marketplace itself; royalty amounts are non-zero (`royLoop` skips zero shares); the
      tokens are tokens of the two traded records, hence honest; no NFT is transferred;
    – per native denomination and per honest token the *total* the list pays is at most what the
      records promised before the purchase (`buy_acct`: promised-before = promised-after + paid;
      the pending fee is part of "promised"), which is exactly what the marketplace holds (C01).
  No bound on amounts and no condition on the payout addresses is needed (a payment addressed to the
  marketplace itself would only leave it richer); of `C01Inv` only `ids`, `wf` and the native / CW20
  parts of `backed` are used.

  `C02_step_iff_world` is then the equivalence for `step`; `C02_step_iff_reach` /
  `C02_step_iff_deployed` state it for every state reached by a history of unforged operations that
  avoid the marketplace's own address (`C07_reach_run`), the stored registry address being the real
  one throughout (`run_registry`).  Core library only.
-/
import Fuzion.Lemmas.WorldLemmas
import Fuzion.Props.C02
import Fuzion.Props.C07Closed
namespace Fuzion

/-! ### sample worlds for the non-vacuity examples -/

namespace C02WEx

/-- the sample history of C01 (`AcctEx.ops`) up to, not including, the purchase: listing 3 of
    account 1 (1000 of denom 1, 400 of honest token 50, honest NFT (60, 7)) is finalized, bucket 8
    of account 2 holds the ask, collection 60 pays 2.5 % royalties to account 6 -/
def wBefore : World := run AcctEx.w0 (AcctEx.ops.take 6)

theorem w0_reach : Reach AcctEx.w0 :=
  ⟨C07Ex.w0_inv, ⟨fun _ hp => (by cases hp), fun _ hp => (by cases hp)⟩⟩

theorem wBefore_reach : Reach wBefore := C07_reach_run _ w0_reach (by decide)

/-- a short history from the deployment `deployedEx` (Props/C01Closed.lean): account 1 lists 10 of
    denom 0 for 10 of denom 2, finalizes, and fills a bucket with the ask -/
def opsD : List Op :=
  [ .exec 1 [⟨0, 10⟩] (.createListing 4 ⟨⟨[⟨2, 10⟩], [], []⟩, none⟩),
    .exec 1 [] (.finalize 4 600),
    .exec 1 [⟨2, 10⟩] (.createBucket 5) ]

theorem deployedEx_ok : Deployed deployedEx := by
  refine ⟨⟨1700000000123456789, some 7, rfl⟩, ?_, ?_, ?_, rfl, by decide⟩
  · intro d; simp [deployedEx, lget, alookup]
  · intro t; simp [deployedEx, lget]
  · intro k; simp [deployedEx]

end C02WEx

/-! ### 1. the chain accepts the messages of a purchase -/

/-- **Deliverability of a purchase's messages** (the hypothesis `hd` of `C02_step_if`, proved).
    In a world satisfying the run-level invariant `C01Inv` (ids, well-formed records, holdings =
    recorded obligations) whose records name honest tokens only (`CleanRecords`), every message an
    accepted `buy` emits — the paying bucket's old pending fee to the community pool, then the
    royalty payments of both sides — is accepted by the bank and the token contracts, in order. -/
theorem C02_buy_dispatch_ok {w : World} {buyer lid bid : Nat} {m' : Market} {msgs : List OutMsg}
    (hInv : C01Inv w) (hC : CleanRecords w)
    (h : buy w.mkt w.env buyer lid bid = .ok (m', msgs)) :
    (dispatchAll noFault { w with mkt := m' } msgs 0).isSome = true := by
  obtain ⟨hbn, hbc⟩ := buy_budget hInv.ids hInv.wf h
  have hdel : ∀ x ∈ msgs, x.deliverable w :=
    buy_deliverable hInv.wf (fun p hp => (hC.lst p hp).1.cw20) (fun p hp => (hC.bkt p hp).1.cw20) h
  obtain ⟨w2, h2⟩ := dispatchAll_ok_of_budget (w := { w with mkt := m' }) (ms := msgs) 0
    (fun x hx => hdel x hx)
    (fun d => by
      show paidNative msgs d ≤ lget w.bank (w.self, d)
      rw [hInv.backed.1 d]; exact hbn d)
    (fun t ht => by
      show paidCw20 msgs t ≤ lget w.cw20 (t, w.self)
      rw [hInv.backed.2.1 t ht]; exact hbc t)
  rw [h2]; rfl

/-- non-vacuity of `C02_buy_dispatch_ok`: the reached sample world satisfies the invariants, the
    purchase of listing 3 with bucket 8 is accepted by the handler and emits a royalty payment -/
example : C01Inv C02WEx.wBefore ∧ CleanRecords C02WEx.wBefore ∧
    (buy C02WEx.wBefore.mkt C02WEx.wBefore.env 2 3 8).isOk = true ∧
    (step C02WEx.wBefore (.exec 2 [] (.buy 3 8))).2.msgs = [.bankSend 6 [⟨2, 50⟩]] :=
  ⟨C02WEx.wBefore_reach.inv, C02WEx.wBefore_reach.clean, by decide, by decide⟩

/-- The general form behind it, usable for any handler: a message list is dispatched in full if
    every message is deliverable and, per native denomination and per honest CW20 token, the total
    it pays is covered by the marketplace's balance. -/
theorem C02_dispatch_budget {w : World} {ms : List OutMsg} (hdel : ∀ x ∈ ms, x.deliverable w)
    (hn : ∀ d, paidNative ms d ≤ lget w.bank (w.self, d))
    (hc : ∀ t, w.isHonest20 t = true → paidCw20 ms t ≤ lget w.cw20 (t, w.self)) :
    (dispatchAll noFault w ms 0).isSome = true := by
  obtain ⟨w2, h2⟩ := dispatchAll_ok_of_budget 0 hdel hn hc
  rw [h2]; rfl

/-- non-vacuity of `C02_dispatch_budget`: a pool deposit, two bank sends in the same denomination
    and a CW20 transfer, against a wallet that covers exactly their total -/
example :
    let w : World := { AcctEx.wd with bank := [((100, 1), 12)], cw20 := [((50, 100), 3)] }
    let ms : List OutMsg := [.fundPool 100 ⟨1, 4⟩, .bankSend 9 [⟨1, 5⟩], .bankSend 8 [⟨1, 3⟩], .cw20Transfer 50 9 3]
    (∀ x ∈ ms, x.deliverable w) ∧ paidNative ms 1 = 12 ∧ paidCw20 ms 50 = 3 ∧
      (dispatchAll noFault w ms 0).isSome = true := by
  refine ⟨?_, by decide, by decide, by decide⟩
  intro x hx
  simp only [List.mem_cons, List.not_mem_nil, or_false] at hx
  rcases hx with rfl | rfl | rfl | rfl
  · exact ⟨rfl, by decide⟩
  · exact ⟨_, List.mem_cons_self, by decide⟩
  · exact ⟨_, List.mem_cons_self, by decide⟩
  · exact ⟨by decide, by decide⟩

/-! ### 2. the transaction -/

/-- "A purchase succeeds **if** …", for a whole transaction, with no hypothesis about delivery:
    in a world satisfying `C01Inv` and `CleanRecords` that stores the real registry address, the
    purchase transaction succeeds whenever the published terms hold. -/
theorem C02_step_if_world {w : World} {buyer lid bid : Nat} (hInv : C01Inv w) (hC : CleanRecords w)
    (hreg : w.mkt.registry = some w.regAddr) (hT : BuyTerms w.mkt w.env buyer lid bid) :
    (step w (.exec buyer [] (.buy lid bid))).2.ok = true :=
  C02_step_if hreg hT (fun _ _ h => C02_buy_dispatch_ok hInv hC h)

/-- non-vacuity of `C02_step_if_world` -/
example : C01Inv C02WEx.wBefore ∧ CleanRecords C02WEx.wBefore ∧
    C02WEx.wBefore.mkt.registry = some C02WEx.wBefore.regAddr ∧
    BuyTerms C02WEx.wBefore.mkt C02WEx.wBefore.env 2 3 8 :=
  ⟨C02WEx.wBefore_reach.inv, C02WEx.wBefore_reach.clean, by decide, (C02_oracle _ _ _ _).1 (by decide)⟩

/-- **"A purchase succeeds if and only if** the listing is finalized, unsold and not past its
    expiration, the caller is the whitelisted buyer when one is set, the caller owns the bucket,
    the bucket's contents equal the ask exactly … and the royalties due on each side do not exceed
    50%", for the transaction `ExecuteMsg::BuyListing` (no coins attached) on the chain: handler,
    bank and token contracts together.  Hypotheses: the run-level invariants `C01Inv`,
    `CleanRecords`, and the marketplace stores the address of the real registry. -/
theorem C02_step_iff_world {w : World} {buyer lid bid : Nat} (hInv : C01Inv w) (hC : CleanRecords w)
    (hreg : w.mkt.registry = some w.regAddr) :
    (step w (.exec buyer [] (.buy lid bid))).2.ok = true ↔ BuyTerms w.mkt w.env buyer lid bid :=
  C02_step_iff hreg (fun _ _ h => C02_buy_dispatch_ok hInv hC h)

/-- non-vacuity of `C02_step_iff_world`: in the reached sample world both sides occur — bucket 8
    of account 2 buys listing 3, account 1 (who owns no such bucket) does not -/
example : C01Inv C02WEx.wBefore ∧ CleanRecords C02WEx.wBefore ∧
    C02WEx.wBefore.mkt.registry = some C02WEx.wBefore.regAddr ∧
    (step C02WEx.wBefore (.exec 2 [] (.buy 3 8))).2.ok = true ∧
    (step C02WEx.wBefore (.exec 1 [] (.buy 3 8))).2.ok = false :=
  ⟨C02WEx.wBefore_reach.inv, C02WEx.wBefore_reach.clean, by decide, by decide, by decide⟩

/-- The complete statement for one purchase transaction in such a world: it is accepted exactly
    when it carries no coins and the terms hold; when it is refused nothing changes. -/
theorem C02_step_world {w : World} {buyer lid bid : Nat} {funds : List Coin} (hInv : C01Inv w)
    (hC : CleanRecords w) (hreg : w.mkt.registry = some w.regAddr) :
    ((step w (.exec buyer funds (.buy lid bid))).2.ok = true ↔
      funds = [] ∧ BuyTerms w.mkt w.env buyer lid bid) ∧
    ((step w (.exec buyer funds (.buy lid bid))).2.ok = false →
      (step w (.exec buyer funds (.buy lid bid))).1 = w) := by
  refine ⟨?_, C02_refused_noop w _⟩
  by_cases hf : funds = []
  · subst hf
    rw [C02_step_iff_world hInv hC hreg]
    simp
  · rw [C02_step_funds hf]
    simp [hf]

/-- non-vacuity of `C02_step_world`: with a coin attached the same purchase is refused -/
example : (step C02WEx.wBefore (.exec 2 [⟨2, 1⟩] (.buy 3 8))).2.ok = false := by decide

/-! ### 3. every reachable state -/

/-- **C02 in every reachable state.**  Let `w0` satisfy `Reach` (`C01Inv` and `CleanRecords`; e.g.
    a fresh deployment, `Reach_deployed`) and store the real registry address.  After any history
    whose operations are not signed by the marketplace, do not register it as payout address
    (`Op.avoids`) and contain no direct call of a receive hook (`Op.unforged`), a purchase
    transaction succeeds if and only if the published terms hold in the state it is submitted to. -/
theorem C02_step_iff_reach {w0 : World} (h0 : Reach w0) (hreg : w0.mkt.registry = some w0.regAddr)
    (ops : List Op) (hops : ∀ op ∈ ops, op.avoids w0.self ∧ op.unforged) (buyer lid bid : Nat) :
    (step (run w0 ops) (.exec buyer [] (.buy lid bid))).2.ok = true ↔
      BuyTerms (run w0 ops).mkt (run w0 ops).env buyer lid bid := by
  have hr := C07_reach_run ops h0 hops
  obtain ⟨r1, r2⟩ := run_registry ops w0
  exact C02_step_iff_world hr.inv hr.clean (by rw [r1, r2]; exact hreg)

/-- non-vacuity of `C02_step_iff_reach` -/
example : Reach AcctEx.w0 ∧ AcctEx.w0.mkt.registry = some AcctEx.w0.regAddr ∧
    (∀ op ∈ AcctEx.ops.take 6, op.avoids AcctEx.w0.self ∧ op.unforged) ∧
    (step (run AcctEx.w0 (AcctEx.ops.take 6)) (.exec 2 [] (.buy 3 8))).2.ok = true :=
  ⟨C02WEx.w0_reach, rfl, by decide, by decide⟩

/-- **C02 from deployment**: the same for every state reached from a freshly deployed marketplace
    (`Deployed`: just instantiated, holds nothing, empty registry) that was given the address of
    the real registry — what `instantiate` + `reply` establish. -/
theorem C02_step_iff_deployed {w0 : World} (h0 : Deployed w0)
    (hreg : w0.mkt.registry = some w0.regAddr) (ops : List Op)
    (hops : ∀ op ∈ ops, op.avoids w0.self ∧ op.unforged) (buyer lid bid : Nat) :
    (step (run w0 ops) (.exec buyer [] (.buy lid bid))).2.ok = true ↔
      BuyTerms (run w0 ops).mkt (run w0 ops).env buyer lid bid :=
  C02_step_iff_reach (Reach_deployed h0) hreg ops hops buyer lid bid

/-- non-vacuity of `C02_step_iff_deployed`: from the sample deployment, after listing, finalizing
    and filling a bucket, the purchase with that bucket is accepted, with another id refused -/
example : Deployed deployedEx ∧ deployedEx.mkt.registry = some deployedEx.regAddr ∧
    (∀ op ∈ C02WEx.opsD, op.avoids deployedEx.self ∧ op.unforged) ∧
    (step (run deployedEx C02WEx.opsD) (.exec 1 [] (.buy 4 5))).2.ok = true ∧
    (step (run deployedEx C02WEx.opsD) (.exec 1 [] (.buy 4 6))).2.ok = false :=
  ⟨C02WEx.deployedEx_ok, rfl, by decide, by decide, by decide⟩

/-- "Otherwise it is refused with no effect", in every reachable state: when some term fails, the
    purchase transaction is refused and the world is exactly what it was (this direction needs no
    invariant: `C02_step_refused`); when all hold it is accepted (`C02_step_iff_reach`). -/
theorem C02_step_reach_dichotomy {w0 : World} (h0 : Reach w0)
    (hreg : w0.mkt.registry = some w0.regAddr) (ops : List Op)
    (hops : ∀ op ∈ ops, op.avoids w0.self ∧ op.unforged) (buyer lid bid : Nat) :
    (BuyTerms (run w0 ops).mkt (run w0 ops).env buyer lid bid ∧
      (step (run w0 ops) (.exec buyer [] (.buy lid bid))).2.ok = true) ∨
    (¬ BuyTerms (run w0 ops).mkt (run w0 ops).env buyer lid bid ∧
      (step (run w0 ops) (.exec buyer [] (.buy lid bid))).2.ok = false ∧
      (step (run w0 ops) (.exec buyer [] (.buy lid bid))).1 = run w0 ops) := by
  by_cases hT : BuyTerms (run w0 ops).mkt (run w0 ops).env buyer lid bid
  · exact .inl ⟨hT, (C02_step_iff_reach h0 hreg ops hops buyer lid bid).2 hT⟩
  · exact .inr ⟨hT, C02_step_refused hT⟩

/-- non-vacuity of `C02_step_reach_dichotomy`: same hypotheses as `C02_step_iff_reach` -/
example : Reach AcctEx.w0 ∧ AcctEx.w0.mkt.registry = some AcctEx.w0.regAddr ∧
    (∀ op ∈ AcctEx.ops.take 6, op.avoids AcctEx.w0.self ∧ op.unforged) :=
  ⟨C02WEx.w0_reach, rfl, by decide⟩

#print axioms C02_buy_dispatch_ok
#print axioms C02_dispatch_budget
#print axioms C02_step_if_world
#print axioms C02_step_iff_world
#print axioms C02_step_world
#print axioms C02_step_iff_reach
#print axioms C02_step_iff_deployed
#print axioms C02_step_reach_dichotomy
#print axioms C02WEx.w0_reach
#print axioms C02WEx.wBefore_reach
#print axioms C02WEx.deployedEx_ok

end Fuzion
