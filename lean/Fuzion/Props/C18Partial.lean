/-
  Fuzion.Props.C18Partial — what a forged receive call still CANNOT do.

  Property text (C18): "A third-party contract cannot alter or freeze someone else's escrow."
  The full property is FALSE of the code (defect D5; `Props/C18.lean` proves its negation with a
  reachable witness): the CW20 / CW721 receive hooks cannot authenticate the sender a calling
  contract names, so any contract can top up another wallet's bucket or listing in preparation
  with an asset of its own that later refuses to move.

  This file proves the limits of that attack.  A *forged call* is
  `execute m env caller [] (.receive sender amount inner)` or `(.receiveNft sender tid inner)`
  made directly by a contract `caller` (honest tokens reach the hooks only through `Op.send20` /
  `Op.send721`, where the named sender is the real depositor).  Under the id invariant `IdsInv`
  (Inv/MInv.lean; preserved by every message, `C09_inv_execute`):

  * only records of the NAMED sender are written, and only one of them;
  * only buckets and listings still in preparation: finalized and closed listings are untouched;
  * the only change is that an entry of the CALLER's own token address / collection is added or
    increased; no asset is removed, no other field changes, no record is deleted or re-filed;
  * `Create*` inner messages create a fresh record under an id never used before and alter none;
  * nothing is paid out (no message), fee configuration and registry address are untouched;
  * an account cannot forge at all, and a contract that does not answer `TokenInfo` cannot use
    the CW20 hook;
  * at world level the transaction changes the marketplace record only.

  Helper lemmas are in `Fuzion/Lemmas/ForgeLemmas.lean`.  Core library only.
-/
import Fuzion.Lemmas.ForgeLemmas
import Fuzion.Props.C18
namespace Fuzion

/-! ### 1. the CW20 hook -/

/-- "A third-party contract cannot alter … someone else's escrow" — the part that holds for a
    forged CW20 hook call.  Nothing is paid out; the named sender is a valid address `user`; the
    fee configuration and the registry address are untouched and the id logs only grow; records
    of everybody but `user` are untouched; exactly one storage key is written and one of the two
    tables not at all; no record disappears or moves; a listing that is not in preparation is
    untouched; in every record the only thing that can differ is `forSale.cw20` / `funds.cw20`,
    where the amount of every token other than the caller's own address is unchanged and the
    caller's own token is unchanged or increased by exactly `amount`. -/
theorem C18_partial_receive {m m' : Market} {env : Env} {caller : Nat} {sender : RawAddr}
    {amount : Nat} {inner : Option Inner} {out : List OutMsg} (hI : IdsInv m)
    (h : receive m env caller [] sender amount inner = .ok (m', out)) :
    out = [] ∧ ∃ user, sender = .valid user ∧
      m'.feeKind = m.feeKind ∧ m'.feeSince = m.feeSince ∧ m'.registry = m.registry ∧
      (∀ i ∈ m.listingUsed, i ∈ m'.listingUsed) ∧ (∀ i ∈ m.bucketUsed, i ∈ m'.bucketUsed) ∧
      -- other wallets' records
      (∀ k : Nat × Nat, k.1 ≠ user →
        alookup k m'.listings = alookup k m.listings ∧ alookup k m'.buckets = alookup k m.buckets) ∧
      -- ONE record
      (∃ k0 : Nat × Nat, k0.1 = user ∧
        (∀ k, k ≠ k0 → alookup k m'.listings = alookup k m.listings ∧
          alookup k m'.buckets = alookup k m.buckets) ∧
        (m'.listings = m.listings ∨ m'.buckets = m.buckets)) ∧
      -- every existing listing
      (∀ k l, alookup k m.listings = some l → ∃ l', alookup k m'.listings = some l' ∧
        (l.status ≠ .preparing → l' = l) ∧
        l'.creator = l.creator ∧ l'.id = l.id ∧ l'.status = l.status ∧ l'.ask = l.ask ∧
        l'.whitelist = l.whitelist ∧ l'.claimant = l.claimant ∧ l'.finalizedAt = l.finalizedAt ∧
        l'.expiresAt = l.expiresAt ∧ l'.fee = l.fee ∧ l'.forSale.native = l.forSale.native ∧
        l'.forSale.nfts = l.forSale.nfts ∧
        (∀ t, t ≠ caller → coinAmt l'.forSale.cw20 t = coinAmt l.forSale.cw20 t) ∧
        coinAmt l.forSale.cw20 caller ≤ coinAmt l'.forSale.cw20 caller ∧
        (l' = l ∨ coinAmt l'.forSale.cw20 caller = coinAmt l.forSale.cw20 caller + amount)) ∧
      -- every existing bucket
      (∀ k b, alookup k m.buckets = some b → ∃ b', alookup k m'.buckets = some b' ∧
        b'.owner = b.owner ∧ b'.fee = b.fee ∧ b'.funds.native = b.funds.native ∧
        b'.funds.nfts = b.funds.nfts ∧
        (∀ t, t ≠ caller → coinAmt b'.funds.cw20 t = coinAmt b.funds.cw20 t) ∧
        coinAmt b.funds.cw20 caller ≤ coinAmt b'.funds.cw20 caller ∧
        (b' = b ∨ coinAmt b'.funds.cw20 caller = coinAmt b.funds.cw20 caller + amount)) := by
  obtain ⟨_, _, ho, user, hs, hc⟩ := receive_hook h
  obtain ⟨c1, c2, c3, c4, c5⟩ := hc.cfg
  refine ⟨ho, user, hs, c1, c2, c3, c4, c5, hc.others, hc.one, ?_, ?_⟩
  · intro k l hl
    rcases hc.listing hI hl with e | ⟨_, hst, _, nf, htop, e⟩
    · exact ⟨l, e, fun _ => rfl, rfl, rfl, rfl, rfl, rfl, rfl, rfl, rfl, rfl, rfl, rfl,
        fun _ _ => rfl, Nat.le_refl _, .inl rfl⟩
    · obtain ⟨t1, t2, t3⟩ := addTokens_cw20_spec htop
      refine ⟨_, e, fun hne => absurd hst hne, rfl, rfl, rfl, rfl, rfl, rfl, rfl, rfl, rfl, t1, t2,
        ?_, ?_, .inr ?_⟩
      · intro t ht
        have : ¬ caller = t := fun e => ht e.symm
        simp only [t3 t, this, if_false, Nat.add_zero]
      · simp only [t3 caller, if_true]; omega
      · simp only [t3 caller, if_true]
  · intro k b hb
    rcases hc.bucket hb with e | ⟨_, nf, htop, e⟩
    · exact ⟨b, e, rfl, rfl, rfl, rfl, fun _ _ => rfl, Nat.le_refl _, .inl rfl⟩
    · obtain ⟨t1, t2, t3⟩ := addTokens_cw20_spec htop
      refine ⟨_, e, rfl, rfl, t1, t2, ?_, ?_, .inr ?_⟩
      · intro t ht
        have : ¬ caller = t := fun e => ht e.symm
        simp only [t3 t, this, if_false, Nat.add_zero]
      · simp only [t3 caller, if_true]; omega
      · simp only [t3 caller, if_true]

/-- the marketplace record and environment of the witness state of `Props/C18.lean`: victim 1
    has bucket 3 and the listing in preparation 5; contract 6 is hostile -/
def c18Mkt : Market := (run c18World c18Setup).mkt
def c18Env : Env := (run c18World c18Setup).env

theorem c18Mkt_ids : IdsInv c18Mkt := by
  constructor <;> decide

/-- non-vacuity of `C18_partial_receive`: the forged top-up of the victim's bucket and the forged
    creation of a listing in the victim's name are both accepted in a state with `IdsInv` -/
example : IdsInv c18Mkt ∧
    (∃ r, receive c18Mkt c18Env 6 [] (.valid 1) 5 (some (.addToBucket 3)) = .ok r) ∧
    (∃ r, receive c18Mkt c18Env 6 [] (.valid 1) 5 (some (.addToListing 5)) = .ok r) ∧
    (∃ r, receive c18Mkt c18Env 6 [] (.valid 1) 5
      (some (.createListing 8 ⟨⟨[⟨0, 1⟩], [], []⟩, none⟩)) = .ok r) :=
  ⟨c18Mkt_ids, ⟨_, rfl⟩, ⟨_, rfl⟩, ⟨_, rfl⟩⟩

/-- "`Create*` inner messages create a fresh record and alter none" (CW20 hook): a record found
    after the call under a key that held none before is filed under the named sender and an id
    that had never been used; it is a listing in preparation / a bucket whose only asset is
    `amount` of the caller's own token.  (That existing records are not altered by a creation is
    part of `C18_partial_receive`: one key is written, and here it is the new one.) -/
theorem C18_partial_receive_created {m m' : Market} {env : Env} {caller : Nat} {sender : RawAddr}
    {amount : Nat} {inner : Option Inner} {out : List OutMsg}
    (h : receive m env caller [] sender amount inner = .ok (m', out)) :
    ∃ user, sender = .valid user ∧
      (∀ k l', alookup k m.listings = none → alookup k m'.listings = some l' →
        k.1 = user ∧ k.2 ∉ m.listingUsed ∧ k.2 ∈ m'.listingUsed ∧ l'.creator = user ∧ l'.id = k.2 ∧
        l'.status = .preparing ∧ l'.claimant = none ∧ l'.fee = none ∧
        l'.forSale = ⟨[], [⟨caller, amount⟩], []⟩) ∧
      (∀ k b', alookup k m.buckets = none → alookup k m'.buckets = some b' →
        k.1 = user ∧ k.2 ∉ m.bucketUsed ∧ k.2 ∈ m'.bucketUsed ∧
        b' = ⟨user, ⟨[], [⟨caller, amount⟩], []⟩, none⟩) := by
  obtain ⟨_, _, _, user, hs, hc⟩ := receive_hook h
  exact ⟨user, hs, fun k l' h1 h2 => hc.new_listing h1 h2, fun k b' h1 h2 => hc.new_bucket h1 h2⟩

example : ∃ r, receive c18Mkt c18Env 6 [] (.valid 1) 5 (some (.createBucket 8)) = .ok r := ⟨_, rfl⟩

/-! ### 2. the CW721 hook -/

/-- The analogue for a forged CW721 hook call: in every record the only thing that can differ
    is `forSale.nfts` / `funds.nfts`, and only by one appended NFT `⟨caller, tid⟩` whose
    collection is the caller's own address; native coins and CW20 amounts are untouched. -/
theorem C18_partial_receiveNft {m m' : Market} {env : Env} {caller : Nat} {sender : RawAddr}
    {tid : Nat} {inner : Option Inner} {out : List OutMsg} (hI : IdsInv m)
    (h : receiveNft m env caller [] sender tid inner = .ok (m', out)) :
    out = [] ∧ ∃ user, sender = .valid user ∧
      m'.feeKind = m.feeKind ∧ m'.feeSince = m.feeSince ∧ m'.registry = m.registry ∧
      (∀ i ∈ m.listingUsed, i ∈ m'.listingUsed) ∧ (∀ i ∈ m.bucketUsed, i ∈ m'.bucketUsed) ∧
      (∀ k : Nat × Nat, k.1 ≠ user →
        alookup k m'.listings = alookup k m.listings ∧ alookup k m'.buckets = alookup k m.buckets) ∧
      (∃ k0 : Nat × Nat, k0.1 = user ∧
        (∀ k, k ≠ k0 → alookup k m'.listings = alookup k m.listings ∧
          alookup k m'.buckets = alookup k m.buckets) ∧
        (m'.listings = m.listings ∨ m'.buckets = m.buckets)) ∧
      (∀ k l, alookup k m.listings = some l → ∃ l', alookup k m'.listings = some l' ∧
        (l.status ≠ .preparing → l' = l) ∧
        l'.creator = l.creator ∧ l'.id = l.id ∧ l'.status = l.status ∧ l'.ask = l.ask ∧
        l'.whitelist = l.whitelist ∧ l'.claimant = l.claimant ∧ l'.finalizedAt = l.finalizedAt ∧
        l'.expiresAt = l.expiresAt ∧ l'.fee = l.fee ∧ l'.forSale.native = l.forSale.native ∧
        l'.forSale.cw20 = l.forSale.cw20 ∧
        (l' = l ∨ l'.forSale.nfts = l.forSale.nfts ++ [⟨caller, tid⟩])) ∧
      (∀ k b, alookup k m.buckets = some b → ∃ b', alookup k m'.buckets = some b' ∧
        b'.owner = b.owner ∧ b'.fee = b.fee ∧ b'.funds.native = b.funds.native ∧
        b'.funds.cw20 = b.funds.cw20 ∧
        (b' = b ∨ b'.funds.nfts = b.funds.nfts ++ [⟨caller, tid⟩])) := by
  obtain ⟨_, _, ho, user, hs, hc⟩ := receiveNft_hook h
  obtain ⟨c1, c2, c3, c4, c5⟩ := hc.cfg
  refine ⟨ho, user, hs, c1, c2, c3, c4, c5, hc.others, hc.one, ?_, ?_⟩
  · intro k l hl
    rcases hc.listing hI hl with e | ⟨_, hst, _, nf, htop, e⟩
    · exact ⟨l, e, fun _ => rfl, rfl, rfl, rfl, rfl, rfl, rfl, rfl, rfl, rfl, rfl, rfl, .inl rfl⟩
    · subst htop
      exact ⟨_, e, fun hne => absurd hst hne, rfl, rfl, rfl, rfl, rfl, rfl, rfl, rfl, rfl, rfl, rfl,
        .inr rfl⟩
  · intro k b hb
    rcases hc.bucket hb with e | ⟨_, nf, htop, e⟩
    · exact ⟨b, e, rfl, rfl, rfl, rfl, .inl rfl⟩
    · subst htop
      exact ⟨_, e, rfl, rfl, rfl, rfl, .inr rfl⟩

/-- non-vacuity of `C18_partial_receiveNft` -/
example : IdsInv c18Mkt ∧
    (∃ r, receiveNft c18Mkt c18Env 6 [] (.valid 1) 1 (some (.addToBucket 3)) = .ok r) ∧
    (∃ r, receiveNft c18Mkt c18Env 6 [] (.valid 1) 1 (some (.addToListing 5)) = .ok r) :=
  ⟨c18Mkt_ids, ⟨_, rfl⟩, ⟨_, rfl⟩⟩

/-- "`Create*` inner messages create a fresh record and alter none" (CW721 hook). -/
theorem C18_partial_receiveNft_created {m m' : Market} {env : Env} {caller : Nat}
    {sender : RawAddr} {tid : Nat} {inner : Option Inner} {out : List OutMsg}
    (h : receiveNft m env caller [] sender tid inner = .ok (m', out)) :
    ∃ user, sender = .valid user ∧
      (∀ k l', alookup k m.listings = none → alookup k m'.listings = some l' →
        k.1 = user ∧ k.2 ∉ m.listingUsed ∧ k.2 ∈ m'.listingUsed ∧ l'.creator = user ∧ l'.id = k.2 ∧
        l'.status = .preparing ∧ l'.claimant = none ∧ l'.fee = none ∧
        l'.forSale = ⟨[], [], [⟨caller, tid⟩]⟩) ∧
      (∀ k b', alookup k m.buckets = none → alookup k m'.buckets = some b' →
        k.1 = user ∧ k.2 ∉ m.bucketUsed ∧ k.2 ∈ m'.bucketUsed ∧
        b' = ⟨user, ⟨[], [], [⟨caller, tid⟩]⟩, none⟩) := by
  obtain ⟨_, _, _, user, hs, hc⟩ := receiveNft_hook h
  exact ⟨user, hs, fun k l' h1 h2 => hc.new_listing h1 h2, fun k b' h1 h2 => hc.new_bucket h1 h2⟩

example : ∃ r, receiveNft c18Mkt c18Env 6 [] (.valid 1) 1 (some (.createBucket 8)) = .ok r :=
  ⟨_, rfl⟩

/-! ### 3. who can call the hooks at all -/

/-- "an account cannot forge at all, and a contract that does not answer `TokenInfo` cannot use
    the CW20 hook": an accepted `Receive` comes from an address that answers the CW20
    `TokenInfo` query, an accepted `ReceiveNft` from an address that is a contract; neither may
    carry coins. -/
theorem C18_partial_gate {m : Market} {env : Env} {caller : Nat} {funds : List Coin}
    {sender : RawAddr} {x : Nat} {inner : Option Inner} {r : Market × List OutMsg} :
    (receive m env caller funds sender x inner = .ok r → env.isToken20 caller = true ∧ funds = []) ∧
    (receiveNft m env caller funds sender x inner = .ok r →
      env.isContract caller = true ∧ funds = []) := by
  obtain ⟨m', out⟩ := r
  constructor
  · intro h
    obtain ⟨h1, h2, _⟩ := receive_hook h
    exact ⟨h2, h1⟩
  · intro h
    obtain ⟨h1, h2, _⟩ := receiveNft_hook h
    exact ⟨h2, h1⟩

example : (∃ r, receive c18Mkt c18Env 6 [] (.valid 1) 5 (some (.addToBucket 3)) = .ok r) ∧
    (∃ r, receiveNft c18Mkt c18Env 6 [] (.valid 1) 1 (some (.addToBucket 3)) = .ok r) :=
  ⟨⟨_, rfl⟩, ⟨_, rfl⟩⟩

/-- the gate at world level, in terms of the chain's contract table: a direct `Receive` is
    accepted only from an address in the contract table whose code answers `TokenInfo`, a direct
    `ReceiveNft` only from an address in the contract table — never from a plain account. -/
theorem C18_partial_gate_world (w : World) (caller : Nat) (funds : List Coin) (sender : RawAddr)
    (x : Nat) (inner : Option Inner) :
    ((step w (.exec caller funds (.receive sender x inner))).2.ok = true →
      funds = [] ∧ ∃ ci, w.kindOf caller = some ci ∧ ci.tokenInfo = true) ∧
    ((step w (.exec caller funds (.receiveNft sender x inner))).2.ok = true →
      funds = [] ∧ (w.kindOf caller).isSome = true) := by
  constructor
  · intro hok
    rcases stepF_market (fail := noFault) (w := w)
      (op := .exec caller funds (.receive sender x inner)) rfl with ⟨e, hs⟩ | ⟨m', msgs, w2, hx, _⟩
    · unfold step at hok; rw [hs] at hok; cases hok
    · rw [execute_receive] at hx
      obtain ⟨h1, h2, _⟩ := receive_hook hx
      refine ⟨h1, ?_⟩
      simp only [World.env] at h2
      cases hk : w.kindOf caller with
      | none => rw [hk] at h2; cases h2
      | some ci => rw [hk] at h2; exact ⟨ci, rfl, h2⟩
  · intro hok
    rcases stepF_market (fail := noFault) (w := w)
      (op := .exec caller funds (.receiveNft sender x inner)) rfl with ⟨e, hs⟩ | ⟨m', msgs, w2, hx, _⟩
    · unfold step at hok; rw [hs] at hok; cases hok
    · rw [execute_receiveNft] at hx
      obtain ⟨h1, h2, _⟩ := receiveNft_hook hx
      exact ⟨h1, h2⟩

/-- non-vacuity of `C18_partial_gate_world`: the hostile contract 6 is accepted by both hooks -/
example : (step (run c18World c18Setup) forge20Bucket).2.ok = true ∧
    (step (run c18World c18Setup) forge721Bucket).2.ok = true := by decide

/-! ### 4. no other asset changes -/

/-- "no asset is removed … only an entry of the caller's own token address is added" as totals
    over all records: a forged CW20 hook call changes neither the total the records promise in
    any native denomination, nor the pending fees, nor the total of any CW20 token other than
    the caller's own address. -/
theorem C18_partial_honest_assets {m m' : Market} {env : Env} {caller : Nat} {sender : RawAddr}
    {amount : Nat} {inner : Option Inner} {out : List OutMsg} (hI : IdsInv m)
    (h : receive m env caller [] sender amount inner = .ok (m', out)) :
    (∀ d, owedNative m' d = owedNative m d) ∧ (∀ d, pendingFee m' d = pendingFee m d) ∧
    (∀ t, t ≠ caller → owedCw20 m' t = owedCw20 m t) := by
  obtain ⟨_, _, _, user, _, hc⟩ := receive_hook h
  have hfee : ∀ d, pendingFee m' d = pendingFee m d := by
    intro d
    obtain ⟨e1, e2⟩ := hc.sums hI (fun l => feeAmt l.fee d) (fun b => feeAmt b.fee d)
      (fun _ _ _ => rfl) (fun _ _ _ => rfl) rfl (fun _ _ _ => rfl)
    unfold pendingFee; rw [e1, e2]
  refine ⟨?_, hfee, ?_⟩
  · intro d
    obtain ⟨e1, e2⟩ := hc.sums hI (fun l => coinAmt l.forSale.native d)
      (fun b => coinAmt b.funds.native d) (fun _ _ _ => rfl)
      (fun l nf ht => by rw [(addTokens_cw20_spec ht).1]) rfl
      (fun b nf ht => by rw [(addTokens_cw20_spec ht).1])
    unfold owedNative; rw [e1, e2, hfee]
  · intro t ht
    have hne : ¬ caller = t := fun e => ht e.symm
    obtain ⟨e1, e2⟩ := hc.sums hI (fun l => coinAmt l.forSale.cw20 t)
      (fun b => coinAmt b.funds.cw20 t)
      (fun _ _ _ => by simp [newListing, fromBalance, coinAmt_cons, coinAmt_nil, hne])
      (fun l nf ht => by simp only [(addTokens_cw20_spec ht).2.2 t, hne, if_false, Nat.add_zero])
      (by simp [fromBalance, coinAmt_cons, coinAmt_nil, hne])
      (fun b nf ht => by simp only [(addTokens_cw20_spec ht).2.2 t, hne, if_false, Nat.add_zero])
    unfold owedCw20; rw [e1, e2]

example : IdsInv c18Mkt ∧
    (∃ r, receive c18Mkt c18Env 6 [] (.valid 1) 5 (some (.addToBucket 3)) = .ok r) :=
  ⟨c18Mkt_ids, ⟨_, rfl⟩⟩

/-- the same for a forged CW721 hook call: no native total, no pending fee and no CW20 total
    changes at all. -/
theorem C18_partial_honest_assets_nft {m m' : Market} {env : Env} {caller : Nat}
    {sender : RawAddr} {tid : Nat} {inner : Option Inner} {out : List OutMsg} (hI : IdsInv m)
    (h : receiveNft m env caller [] sender tid inner = .ok (m', out)) :
    (∀ d, owedNative m' d = owedNative m d) ∧ (∀ d, pendingFee m' d = pendingFee m d) ∧
    (∀ t, owedCw20 m' t = owedCw20 m t) := by
  obtain ⟨_, _, _, user, _, hc⟩ := receiveNft_hook h
  have hfee : ∀ d, pendingFee m' d = pendingFee m d := by
    intro d
    obtain ⟨e1, e2⟩ := hc.sums hI (fun l => feeAmt l.fee d) (fun b => feeAmt b.fee d)
      (fun _ _ _ => rfl) (fun _ _ _ => rfl) rfl (fun _ _ _ => rfl)
    unfold pendingFee; rw [e1, e2]
  refine ⟨?_, hfee, ?_⟩
  · intro d
    obtain ⟨e1, e2⟩ := hc.sums hI (fun l => coinAmt l.forSale.native d)
      (fun b => coinAmt b.funds.native d) (fun _ _ _ => rfl)
      (fun l nf ht => by subst ht; rfl) rfl (fun b nf ht => by subst ht; rfl)
    unfold owedNative; rw [e1, e2, hfee]
  · intro t
    obtain ⟨e1, e2⟩ := hc.sums hI (fun l => coinAmt l.forSale.cw20 t)
      (fun b => coinAmt b.funds.cw20 t) (fun _ _ _ => rfl)
      (fun l nf ht => by subst ht; rfl) rfl (fun b nf ht => by subst ht; rfl)
    unfold owedCw20; rw [e1, e2]

example : IdsInv c18Mkt ∧
    (∃ r, receiveNft c18Mkt c18Env 6 [] (.valid 1) 1 (some (.addToBucket 3)) = .ok r) :=
  ⟨c18Mkt_ids, ⟨_, rfl⟩⟩

/-- what the forged calls DO inflate, exactly: a forged CW20 hook call raises the total recorded
    for the caller's own token address by exactly `amount` and leaves the recorded NFTs (as a
    multiset) as they were; a forged CW721 hook call adds exactly the NFT `⟨caller, tid⟩` of the
    caller's own collection to the recorded NFTs.  (The marketplace holds neither: this is the
    accounting gap behind the known finding D5, confined to assets of the caller's own address.) -/
theorem C18_partial_own_asset {m m' : Market} {env : Env} {caller : Nat} {sender : RawAddr}
    {x : Nat} {inner : Option Inner} {out : List OutMsg} (hI : IdsInv m) :
    (receive m env caller [] sender x inner = .ok (m', out) →
      owedCw20 m' caller = owedCw20 m caller + x ∧ (recordedNfts m').Perm (recordedNfts m)) ∧
    (receiveNft m env caller [] sender x inner = .ok (m', out) →
      (recordedNfts m').Perm (⟨caller, x⟩ :: recordedNfts m)) := by
  constructor
  · intro h
    obtain ⟨_, _, _, user, _, hc⟩ := receive_hook h
    constructor
    · unfold owedCw20
      exact hc.sums_delta hI (fun l => coinAmt l.forSale.cw20 caller)
        (fun b => coinAmt b.funds.cw20 caller) x
        (fun _ _ _ => by simp [newListing, fromBalance, coinAmt_cons, coinAmt_nil])
        (fun l nf ht => by simp only [(addTokens_cw20_spec ht).2.2 caller, if_true])
        (by simp [fromBalance, coinAmt_cons, coinAmt_nil])
        (fun b nf ht => by simp only [(addTokens_cw20_spec ht).2.2 caller, if_true])
    · exact hc.nfts hI [] rfl (fun g nf ht => by rw [(addTokens_cw20_spec ht).2.1]; simp)
  · intro h
    obtain ⟨_, _, _, user, _, hc⟩ := receiveNft_hook h
    exact hc.nfts hI [⟨caller, x⟩] rfl (fun g nf ht => by subst ht; rfl)

example : IdsInv c18Mkt ∧
    (∃ r, receive c18Mkt c18Env 6 [] (.valid 1) 5 (some (.addToBucket 3)) = .ok r) ∧
    (∃ r, receiveNft c18Mkt c18Env 6 [] (.valid 1) 5 (some (.addToBucket 3)) = .ok r) :=
  ⟨c18Mkt_ids, ⟨_, rfl⟩, ⟨_, rfl⟩⟩

/-! ### 5. world level -/

/-- A forged CW20 hook call as a transaction: it is refused and the world is returned as it was,
    or the handler accepted on the pre-state record and environment, emitted no message, and the
    new world differs from the old one in the marketplace record only — bank, CW20 and NFT
    ledgers, registry and contract table are equal. -/
theorem C18_partial_step (w : World) (caller : Nat) (sender : RawAddr) (amount : Nat)
    (inner : Option Inner) :
    ((step w (.exec caller [] (.receive sender amount inner))).2.ok = false ∧
      (step w (.exec caller [] (.receive sender amount inner))).1 = w) ∨
    (∃ m', receive w.mkt w.env caller [] sender amount inner = .ok (m', []) ∧
      step w (.exec caller [] (.receive sender amount inner)) =
        ({ w with mkt := m' }, ⟨true, none, []⟩)) := by
  unfold step
  rcases stepF_exec_silent (fail := noFault) (w := w) (caller := caller)
      (msg := .receive sender amount inner)
      (fun m' out hx => receive_out (by rw [execute_receive] at hx; exact hx)) with
    ⟨e, hs⟩ | ⟨m', hx, hs⟩
  · rw [hs]; exact .inl ⟨rfl, rfl⟩
  · rw [execute_receive] at hx
    exact .inr ⟨m', hx, hs⟩

/-- the same for a forged CW721 hook call -/
theorem C18_partial_step_nft (w : World) (caller : Nat) (sender : RawAddr) (tid : Nat)
    (inner : Option Inner) :
    ((step w (.exec caller [] (.receiveNft sender tid inner))).2.ok = false ∧
      (step w (.exec caller [] (.receiveNft sender tid inner))).1 = w) ∨
    (∃ m', receiveNft w.mkt w.env caller [] sender tid inner = .ok (m', []) ∧
      step w (.exec caller [] (.receiveNft sender tid inner)) =
        ({ w with mkt := m' }, ⟨true, none, []⟩)) := by
  unfold step
  rcases stepF_exec_silent (fail := noFault) (w := w) (caller := caller)
      (msg := .receiveNft sender tid inner)
      (fun m' out hx => receiveNft_out (by rw [execute_receiveNft] at hx; exact hx)) with
    ⟨e, hs⟩ | ⟨m', hx, hs⟩
  · rw [hs]; exact .inl ⟨rfl, rfl⟩
  · rw [execute_receiveNft] at hx
    exact .inr ⟨m', hx, hs⟩

/-- the ledgers, spelled out: whatever the outcome of a forged hook call, every field of the
    world other than `mkt` is what it was. -/
theorem C18_partial_ledgers (w : World) (caller : Nat) (sender : RawAddr) (x : Nat)
    (inner : Option Inner) (op : Op)
    (hop : op = .exec caller [] (.receive sender x inner) ∨
      op = .exec caller [] (.receiveNft sender x inner)) :
    (step w op).1 = { w with mkt := (step w op).1.mkt } ∧
    (step w op).1.bank = w.bank ∧ (step w op).1.cw20 = w.cw20 ∧ (step w op).1.nft = w.nft ∧
    (step w op).1.reg = w.reg ∧ (step w op).1.contracts = w.contracts ∧
    (step w op).2.msgs = [] := by
  rcases hop with rfl | rfl
  · rcases C18_partial_step w caller sender x inner with ⟨hok, hs⟩ | ⟨m', _, hs⟩
    · rw [hs]
      refine ⟨rfl, rfl, rfl, rfl, rfl, rfl, ?_⟩
      rcases stepF_market (fail := noFault) (w := w)
        (op := .exec caller [] (.receive sender x inner)) rfl with ⟨e, he⟩ | ⟨_, _, _, _, _, _, he⟩
      · unfold step; rw [he]; rfl
      · unfold step at hok; rw [he] at hok; cases hok
    · rw [hs]; exact ⟨rfl, rfl, rfl, rfl, rfl, rfl, rfl⟩
  · rcases C18_partial_step_nft w caller sender x inner with ⟨hok, hs⟩ | ⟨m', _, hs⟩
    · rw [hs]
      refine ⟨rfl, rfl, rfl, rfl, rfl, rfl, ?_⟩
      rcases stepF_market (fail := noFault) (w := w)
        (op := .exec caller [] (.receiveNft sender x inner)) rfl with ⟨e, he⟩ | ⟨_, _, _, _, _, _, he⟩
      · unfold step; rw [he]; rfl
      · unfold step at hok; rw [he] at hok; cases hok
    · rw [hs]; exact ⟨rfl, rfl, rfl, rfl, rfl, rfl, rfl⟩

/-- non-vacuity of `C18_partial_ledgers` (its hypothesis is met by the forged calls of
    `Props/C18.lean`, which are accepted) -/
example : forge20Bucket = .exec 6 [] (.receive (.valid 1) 5 (some (.addToBucket 3))) ∧
    forge721Bucket = .exec 6 [] (.receiveNft (.valid 1) 1 (some (.addToBucket 3))) ∧
    (step (run c18World c18Setup) forge20Bucket).2.ok = true ∧
    (step (run c18World c18Setup) forge721Bucket).2.ok = true := by decide

#print axioms C18_partial_receive
#print axioms C18_partial_receive_created
#print axioms C18_partial_receiveNft
#print axioms C18_partial_receiveNft_created
#print axioms C18_partial_gate
#print axioms C18_partial_gate_world
#print axioms C18_partial_honest_assets
#print axioms C18_partial_honest_assets_nft
#print axioms C18_partial_own_asset
#print axioms C18_partial_step
#print axioms C18_partial_step_nft
#print axioms C18_partial_ledgers
#print axioms c18Mkt_ids

end Fuzion
