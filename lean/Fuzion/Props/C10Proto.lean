/-
  Fuzion.Props.C10Proto — byte-level contract of the community-pool message
  (`GetComPoolMsg::get_cp_msg`, state.rs; encoder = anybuf 0.1.0).

  Part of property C10: "… deposited … by a well-formed fund-community-pool message whose
  depositor is the marketplace and whose amount is the recorded fee".  The handlers of the model
  emit the abstract `OutMsg.fundPool depositor coin`; the theorems below say that the bytes the
  Rust puts into the Stargate `value` (modelled by `Proto.encodeFund`) determine exactly one
  `(denom, amount, depositor)` triple and that a reference protobuf reader (`Proto.decodeFund`)
  gets that triple back, with the decimal amount string denoting the recorded amount.

  Core library only.
-/
import Fuzion.Lemmas.ProtoLemmas
namespace Fuzion

/-! ### fidelity anchors (the anybuf unit tests, replayed on the model) -/

/-- anybuf's own unit test `append_bytes(2, "testing") = [0x12, 0x07, 0x74, …]`. -/
example : Proto.field 2 [0x74, 0x65, 0x73, 0x74, 0x69, 0x6e, 0x67] =
    [0x12, 0x07, 0x74, 0x65, 0x73, 0x74, 0x69, 0x6e, 0x67] := by
  simp [Proto.field, Proto.varint_lt]

/-- anybuf: empty data appends nothing. -/
example : Proto.field 2 [] = [] := by simp

/-- a two-byte varint (`300 = 0b10_0101100` → `AC 02`, the protobuf documentation example) -/
example : Proto.varint 300 = [0xAC, 0x02] := by
  rw [Proto.varint_ge (by decide), Proto.varint_lt (by decide)]

/-- `Uint128::to_string` of 1000000 -/
example : Proto.digits 1000000 = [49, 48, 48, 48, 48, 48, 48] := by decide

/-! ### 1. varints -/

/-- C10 "well-formed … message": a base-128 varint written by `varint_encode` is read back
    exactly, whatever follows it (any length: multi-byte varints included). -/
theorem Proto.readVarint_varint (n : Nat) (rest : List Nat) :
    Proto.readVarint (Proto.varint n ++ rest) = some (n, rest) :=
  Proto.readVarint_varint_aux n rest

/-! ### 2. length-delimited fields -/

/-- C10 "well-formed … message": a field written by anybuf's `append_bytes` with non-empty data
    is read back as (field number, data, remaining bytes).  The only side condition is
    `data ≠ []` (anybuf omits empty fields, so nothing would be there to read); it holds for
    every field number, not only 1 and 2, because the reader decodes a multi-byte tag too. -/
theorem Proto.readField_field {num : Nat} {data : List Nat} (rest : List Nat) (h : data ≠ []) :
    Proto.readField (Proto.field num data ++ rest) = some (num, data, rest) :=
  Proto.readField_field_aux rest h

/-- non-vacuity of `readField_field`: a 200-byte payload (two-byte length varint). -/
example : (List.replicate 200 97 : List Nat) ≠ [] := by decide

/-- and the hypothesis is necessary: with empty data the field is absent and reading fails -/
example : Proto.readField (Proto.field 1 [] ++ []) = none := by
  simp [Proto.readField, Proto.readVarint]

/-! ### 3. round trip -/

/-- C10 "a well-formed fund-community-pool message whose depositor is the marketplace and whose
    amount is the recorded fee": the bytes `get_cp_msg` produces decode, as a
    `MsgFundCommunityPool { repeated Coin amount = 1; string depositor = 2 }` with exactly one
    `Coin { denom = 1; amount = 2 }`, to the very denomination, amount string and depositor that
    were encoded.  Arbitrary byte lists: no bound on lengths. -/
theorem Proto.roundtrip {denom amount dep : List Nat}
    (hd : denom ≠ []) (ha : amount ≠ []) (hp : dep ≠ []) :
    Proto.decodeFund (Proto.encodeFund denom amount dep) = some (denom, amount, dep) := by
  unfold Proto.decodeFund Proto.encodeFund
  rw [Proto.readField_field_aux _ (Proto.encodeCoin_ne_nil amount hd)]
  simp only
  rw [Proto.decodeCoin_encodeCoin hd ha, Proto.readField_field_nil hp]
  rfl

/-- non-vacuity of `roundtrip`: "ujuno", "1000000", "juno1" are non-empty. -/
example : ([117, 106, 117, 110, 111] : List Nat) ≠ [] ∧ Proto.digits 1000000 ≠ [] ∧
    ([106, 117, 110, 111, 49] : List Nat) ≠ [] := by decide

/-- the round trip instantiated with a 200-byte denomination (two-byte length varints for the
    denomination and for the embedded coin) -/
example : Proto.decodeFund (Proto.encodeFund (List.replicate 200 97) (Proto.digits 1000000) [106]) =
    some (List.replicate 200 97, Proto.digits 1000000, [106]) :=
  Proto.roundtrip (by decide) (by decide) (by decide)

/-- the bytes of the message for 1000000 "ujuno" from "juno1":
    `0A 10 (0A 05 "ujuno" 12 07 "1000000") 12 05 "juno1"` -/
example : Proto.encodeFund [117, 106, 117, 110, 111] (Proto.digits 1000000) [106, 117, 110, 111, 49] =
    [0x0A, 0x10, 0x0A, 0x05, 117, 106, 117, 110, 111, 0x12, 0x07, 49, 48, 48, 48, 48, 48, 48,
     0x12, 0x05, 106, 117, 110, 111, 49] := by
  have hd : Proto.digits 1000000 = [49, 48, 48, 48, 48, 48, 48] := by decide
  simp [hd, Proto.encodeFund, Proto.encodeCoin, Proto.field, Proto.varint_lt]

/-! ### 4. the amount string denotes the recorded amount -/

/-- `Uint128::to_string` never yields the empty string (so the amount field is never omitted). -/
theorem Proto.digits_ne_nil (n : Nat) : Proto.digits n ≠ [] := by
  unfold Proto.digits Proto.digitsAux
  split
  · simp
  · exact Proto.digitsAux_ne_nil _ _ _ (by simp)

/-- the decimal string denotes the number it was printed from -/
theorem Proto.ofDigits_digits (n : Nat) : Proto.ofDigits (Proto.digits n) = n := by
  unfold Proto.ofDigits Proto.digits
  rw [Proto.foldl_digitsAux _ _ _ (by omega)]
  rfl

/-- the decimal string consists of ASCII digits `'0'..'9'` only -/
theorem Proto.digits_ascii (n : Nat) : ∀ d ∈ Proto.digits n, 48 ≤ d ∧ d ≤ 57 := by
  intro d hd
  rcases Proto.digitsAux_ascii _ _ _ d hd with h | h
  · simp at h
  · exact h

/-- printing is injective: different amounts have different strings -/
theorem Proto.digits_injective {a b : Nat} (h : Proto.digits a = Proto.digits b) : a = b := by
  rw [← Proto.ofDigits_digits a, ← Proto.ofDigits_digits b, h]

/-- non-vacuity of `digits_injective` (equal strings do occur: reflexivity), and a witness that
    distinct amounts print differently -/
example : Proto.digits 42 = Proto.digits 42 ∧ Proto.digits 42 ≠ Proto.digits 420 := by decide

/-- C10 "whose depositor is the marketplace and whose amount is the recorded fee": decoding the
    message built for the fee `a` in denomination `denom` on behalf of `dep` yields `denom`,
    `dep`, and a string of ASCII digits whose value is `a`. -/
theorem C10_wire {denom dep : List Nat} (a : Nat) (hd : denom ≠ []) (hp : dep ≠ []) :
    ∃ ds, Proto.decodeFund (Proto.encodeFund denom (Proto.digits a) dep) = some (denom, ds, dep) ∧
      Proto.ofDigits ds = a ∧ ds ≠ [] ∧ ∀ d ∈ ds, 48 ≤ d ∧ d ≤ 57 :=
  ⟨Proto.digits a, Proto.roundtrip hd (Proto.digits_ne_nil a) hp, Proto.ofDigits_digits a,
    Proto.digits_ne_nil a, Proto.digits_ascii a⟩

/-- non-vacuity of `C10_wire` -/
example : ([117, 106, 117, 110, 111] : List Nat) ≠ [] ∧ ([106, 117, 110, 111, 49] : List Nat) ≠ [] := by
  decide

/-! ### 5. injectivity -/

/-- C10 "a well-formed … message": two different (denom, amount, depositor) triples of non-empty
    strings never produce the same bytes. -/
theorem Proto.encodeFund_injective {d a p d' a' p' : List Nat}
    (hd : d ≠ []) (ha : a ≠ []) (hp : p ≠ []) (hd' : d' ≠ []) (ha' : a' ≠ []) (hp' : p' ≠ [])
    (h : Proto.encodeFund d a p = Proto.encodeFund d' a' p') : d = d' ∧ a = a' ∧ p = p' := by
  have h1 := Proto.roundtrip hd ha hp
  rw [h, Proto.roundtrip hd' ha' hp'] at h1
  simp only [Option.some.injEq, Prod.mk.injEq] at h1
  exact ⟨h1.1.symm, h1.2.1.symm, h1.2.2.symm⟩

/-- non-vacuity of `encodeFund_injective`: two triples satisfying all six side conditions (and
    the equation, trivially, when they coincide) -/
example : ([117] : List Nat) ≠ [] ∧ ([49, 48] : List Nat) ≠ [] ∧ ([106] : List Nat) ≠ [] ∧
    Proto.encodeFund [117] [49, 48] [106] = Proto.encodeFund [117] [49, 48] [106] := by
  refine ⟨by decide, by decide, by decide, rfl⟩

/-- the same at the level of the model's abstract message: the bytes determine the
    denomination, the numeric amount and the depositor. -/
theorem C10_wire_injective {d p d' p' : List Nat} {a a' : Nat}
    (hd : d ≠ []) (hp : p ≠ []) (hd' : d' ≠ []) (hp' : p' ≠ [])
    (h : Proto.encodeFund d (Proto.digits a) p = Proto.encodeFund d' (Proto.digits a') p') :
    d = d' ∧ a = a' ∧ p = p' := by
  have := Proto.encodeFund_injective hd (Proto.digits_ne_nil a) hp hd' (Proto.digits_ne_nil a') hp' h
  exact ⟨this.1, Proto.digits_injective this.2.1, this.2.2⟩

/-- non-vacuity of `C10_wire_injective` -/
example : ([117] : List Nat) ≠ [] ∧ ([106] : List Nat) ≠ [] ∧
    Proto.encodeFund [117] (Proto.digits 7) [106] = Proto.encodeFund [117] (Proto.digits 7) [106] := by
  refine ⟨by decide, by decide, rfl⟩

/-! ### the output is a byte string -/

/-- C10 "well-formed": if the three strings are byte strings, so is the message. -/
theorem Proto.encodeFund_bytes {denom amount dep : List Nat}
    (hd : ∀ b ∈ denom, b < 256) (ha : ∀ b ∈ amount, b < 256) (hp : ∀ b ∈ dep, b < 256) :
    ∀ b ∈ Proto.encodeFund denom amount dep, b < 256 := by
  have hf : ∀ (num : Nat) (data : List Nat), (∀ b ∈ data, b < 256) →
      ∀ b ∈ Proto.field num data, b < 256 := by
    intro num data hdata b hb
    unfold Proto.field at hb
    split at hb
    · simp at hb
    · simp only [List.mem_append] at hb
      rcases hb with (hb | hb) | hb
      · exact Proto.varint_bytes _ b hb
      · exact Proto.varint_bytes _ b hb
      · exact hdata b hb
  intro b hb
  unfold Proto.encodeFund at hb
  rcases List.mem_append.1 hb with hb | hb
  · refine hf 1 _ ?_ b hb
    intro c hc
    unfold Proto.encodeCoin at hc
    rcases List.mem_append.1 hc with hc | hc
    · exact hf 1 _ hd c hc
    · exact hf 2 _ ha c hc
  · exact hf 2 _ hp b hb

/-- non-vacuity of `encodeFund_bytes` -/
example : (∀ b ∈ ([117, 106] : List Nat), b < 256) ∧ (∀ b ∈ Proto.digits 255, b < 256) := by decide

#print axioms Proto.readVarint_varint
#print axioms Proto.readField_field
#print axioms Proto.roundtrip
#print axioms Proto.digits_ne_nil
#print axioms Proto.ofDigits_digits
#print axioms Proto.digits_ascii
#print axioms Proto.digits_injective
#print axioms C10_wire
#print axioms Proto.encodeFund_injective
#print axioms C10_wire_injective
#print axioms Proto.encodeFund_bytes

end Fuzion
