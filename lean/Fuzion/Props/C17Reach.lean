/-
  Fuzion.Props.C17Reach — C17 ("Fee and royalty arithmetic is exact and total for all 128-bit
  amounts") at TRANSACTION level, for every state reached from a freshly instantiated marketplace.

  Props/C17.lean proves the property for the two pure functions `calcFeeCoin` (`calc_fee_coin`)
  and `royalties` (`GenericBalance::royalties`), under hypotheses about the balance they are
  applied to (duplicate-free denominations, 128-bit amounts).  Here the same facts are stated for
  the purchase transaction `.exec buyer [] (.buy lid bid)` executed in `𝐰 = run w0 ops`:

  * the hypotheses on the balances are DISCHARGED: `IdsInv` / `WFInv` by `closed_ids` / `closed_wf0`
    (C09 / C12), the 128-bit bound by `closed_bounded` (Props/C06Closed.lean), the rate bound of
    the registry by `C14_reach_bps`;
  * what remains are input-side conditions: `h0 : w0.mkt = instantiate t r`, and — only where the
    128-bit bound is really needed — `hfit : ∀ op ∈ ops, op.fits128` (every amount an operation
    carries is a `Uint128`, which is the Rust type of those fields);
  * the theorems are about the model's own `step`, `buy`, `calcFeeCoin`, `royalties`: the accepted
    transaction is decomposed (`step_buy_split`, Lemmas/ArithReachLemmas.lean) into one
    `calcFeeCoin` call and one `royalties` call per side, whose inputs and outputs are the stored
    records of the pre- and the post-state.

  Reading guide: `l`, `b` = the traded listing and the paying bucket in `𝐰`; `l'`, `b'` = the
  re-filed records after the transaction (`l'` owned by the buyer, `b'` by the seller); `lbal`,
  `bbal` = the goods / funds between the fee step and the royalty step.  The seller's collections
  (NFTs in `l.forSale`) charge the bucket, the buyer's (NFTs in `b.funds`) charge the goods.
-/
import Fuzion.Props.C06Closed
import Fuzion.Props.C14
import Fuzion.Lemmas.ArithReachLemmas
namespace Fuzion

/-! ### what "exact" means for one side -/

/-- the fee step was exact: `g` = the side before, `fee` = the fee coin recorded, `g'` = the side
    after the fee (`fd` = the fee denomination in force) -/
structure FeeExact (fd : Nat) (g : GBal) (fee : Option Coin) (g' : GBal) : Prop where
  /-- key uniqueness: one entry per denomination (discharged from `WFInv`) -/
  nodup : (keys g.native).Nodup
  /-- the fee is exactly `⌊amount·5/1000⌋` of the side's amount of the fee denomination … -/
  floor : feeAmt fee fd = coinAmt g.native fd * 5 / 1000
  /-- … no fee coin iff that is zero … -/
  none_iff : fee = none ↔ coinAmt g.native fd * 5 / 1000 = 0
  /-- … in particular none when the denomination is absent … -/
  absent : fd ∉ keys g.native → fee = none
  /-- … and a fee coin is that amount of the fee denomination, never zero -/
  coin : ∀ f, fee = some f → f = ⟨fd, coinAmt g.native fd * 5 / 1000⟩ ∧ f.amount ≠ 0
  /-- conservation: fee + remainder = original amount, per denomination -/
  conserve : ∀ k, coinAmt g'.native k + feeAmt fee k = coinAmt g.native k
  /-- every other denomination is untouched by the fee step -/
  others : ∀ k, k ≠ fd → coinAmt g'.native k = coinAmt g.native k ∧ feeAmt fee k = 0
  /-- the same denominations are held afterwards, each once -/
  keysPerm : (keys g'.native).Perm (keys g.native)
  /-- CW20 amounts and NFTs are untouched by the fee step -/
  cw20 : g'.cw20 = g.cw20
  nfts : g'.nfts = g.nfts

theorem FeeExact.of_calc {fd : Nat} {g g' : GBal} {fee : Option Coin} (nd : (keys g.native).Nodup)
    (h : calcFeeCoin fd g = some (fee, g')) : FeeExact fd g fee g' := by
  obtain ⟨f1, f2, f3⟩ := C17_fee_floor nd h
  obtain ⟨c1, c2, c3⟩ := C17_fee_conserve nd h
  have o := C17_fee_other h
  refine ⟨nd, f1, f2, ?_, ?_, c1, ?_, (C17_fee_keys_perm nd h).1, c2, c3⟩
  · intro ha
    rw [f2, coinAmt_eq_zero_of_not_mem ha]
  · intro f hf
    obtain ⟨hk, hz⟩ := f3 f hf
    refine ⟨?_, hz⟩
    subst hf
    obtain ⟨k, a⟩ := f
    simp only at hk
    subst hk
    simp only [feeAmt, if_true] at f1
    rw [f1]
  · intro k hk
    have := c1 k
    have := o k hk
    omega

/-- the royalty step was exact: `es` = the entries charged, `g` = the side after the fee, `g'` =
    the side stored, `ms` = the royalty messages emitted for this side -/
structure RoyaltyExact (es : List RoyaltyInfo) (g g' : GBal) (ms : List OutMsg) : Prop where
  /-- conservation per native denomination: amount left + everything paid out = amount after fee -/
  conserveN : ∀ k, coinAmt g'.native k + outNative ms k = coinAmt g.native k
  /-- … and per CW20 token -/
  conserveC : ∀ k, coinAmt g'.cw20 k + outCw20 ms k = coinAmt g.cw20 k
  /-- entry by entry: same key, amount `a` becomes `a − Σ_e ⌊a·bps_e/10⁴⌋` (floor rounding) … -/
  native : g'.native = g.native.map fun c =>
    ⟨c.key, c.amount - (es.map fun e => c.amount * e.bps / 10000).sum⟩
  cw20 : g'.cw20 = g.cw20.map fun c =>
    ⟨c.key, c.amount - (es.map fun e => c.amount * e.bps / 10000).sum⟩
  /-- … a true subtraction (never wraps) -/
  le : ∀ c ∈ g.native ++ g.cw20, (es.map fun e => c.amount * e.bps / 10000).sum ≤ c.amount
  /-- NFTs are untouched by the royalty step -/
  nfts : g'.nfts = g.nfts
  /-- the messages: per fungible entry `c` and per charged entry `e` with a non-zero share exactly
      one transfer of `⌊c.amount·e.bps/10⁴⌋` of that asset to `e.payout` -/
  msgs : ms =
    (g.native.flatMap fun c => es.filterMap fun e =>
      if c.amount * e.bps / 10000 = 0 then none
      else some (OutMsg.bankSend e.payout [⟨c.key, c.amount * e.bps / 10000⟩])) ++
    (g.cw20.flatMap fun c => es.filterMap fun e =>
      if c.amount * e.bps / 10000 = 0 then none
      else some (OutMsg.cw20Transfer c.key e.payout (c.amount * e.bps / 10000)))
  /-- no 128-bit overflow: what is stored and what is sent are `Uint128`s -/
  fits : g'.bounded ∧ ∀ m ∈ ms, m.amtBounded

theorem RoyaltyExact.of_royalties {g g' : GBal} {rs : List (Option RoyaltyInfo)}
    {ms : List OutMsg} {s : Nat} (hb : g.bounded) (h : royalties g rs = .ok g' ms s) :
    RoyaltyExact (rs.filterMap id) g g' ms := by
  obtain ⟨c1, c2, c3, _⟩ := C17_roy_conserve h
  obtain ⟨r1, r2, r3⟩ := C17_roy_remainder hb h
  exact ⟨c1, c2, r1, r2, r3, c3, C17_roy_msgs hb h, C17_roy_bounded hb h⟩

section
variable {w0 : World} {t : Nat} {r : Option Nat}

/-! ### (a) totality -/

/-- "never overflow, wrap or abort", for the purchase transaction in EVERY state `run w0 ops`
    (no hypothesis on `w0` or `ops` is needed for this part: the fee and royalty computations are
    total on every record, reachable or not).
    (i) neither the handler nor the transaction ever fails with `Err.overflow` (the `checked_sub`
        of `calc_fee_coin`);
    (ii) they fail with `Err.panic` (abort of the `u64` rate sum in `royalties`) only if the rates
        the registry reports for the collections of one of the two sides sum to more than
        `u64::MAX` — see `C17_buy_no_panic_reach` for what that takes. -/
theorem C17_buy_no_overflow_reach (w0 : World) (ops : List Op) (buyer lid bid : Nat) :
    (∀ env, buy (run w0 ops).mkt env buyer lid bid ≠ .error .overflow) ∧
    (step (run w0 ops) (.exec buyer [] (.buy lid bid))).2.err ≠ some .overflow ∧
    (∀ e, (e = .panic ∧ (buy (run w0 ops).mkt (run w0 ops).env buyer lid bid = .error e ∨
        (step (run w0 ops) (.exec buyer [] (.buy lid bid))).2.err = some e)) →
      ∃ k l b, findById lid (run w0 ops).mkt.listings = some (k, l) ∧
        alookup (buyer, bid) (run w0 ops).mkt.buckets = some b ∧
        (((sideEntries (run w0 ops).env l.forSale).map (·.bps)).sum > U64MAX ∨
         ((sideEntries (run w0 ops).env b.funds).map (·.bps)).sum > U64MAX)) := by
  refine ⟨fun env h => (buy_error_inv h).1 rfl, fun h => ?_, ?_⟩
  · rcases step_buy_err h with h | h
    · cases h
    · exact (buy_error_inv h).1 rfl
  · rintro e ⟨rfl, h | h⟩
    · exact (buy_error_inv h).2.1 rfl
    · rcases step_buy_err h with h | h
      · cases h
      · exact (buy_error_inv h).2.1 rfl

/-- non-vacuity / sharpness of (ii): in the model a registry seeded with a rate above `u64::MAX`
    (impossible through the registry's own messages, `C14_reach_bps`) does make the purchase of
    the sample history abort -/
example : (step (run { AcctEx.w0 with reg := [(60, ⟨0, U64MAX + 1, 9⟩)] } (AcctEx.ops.take 5))
    (.exec 2 [] (.buy 3 8))).2.err = some .panic := by decide

/-- "never … abort": with a registry that starts within the rate bounds the registry contract
    enforces (10 … 300 bps; e.g. the empty registry of a deployment), in every reached state the
    purchase aborts only if one side holds NFTs of more than `u64::MAX / 300` (≈ 6·10¹⁶) distinct
    collections. -/
theorem C17_buy_no_panic_reach (w0 : World)
    (hreg : ∀ p ∈ w0.reg, MIN_BPS ≤ p.2.bps ∧ p.2.bps ≤ MAX_BPS) (ops : List Op)
    (buyer lid bid : Nat)
    (h : buy (run w0 ops).mkt (run w0 ops).env buyer lid bid = .error .panic ∨
      (step (run w0 ops) (.exec buyer [] (.buy lid bid))).2.err = some .panic) :
    ∃ k l b, findById lid (run w0 ops).mkt.listings = some (k, l) ∧
      alookup (buyer, bid) (run w0 ops).mkt.buckets = some b ∧
      (300 * (collections l.forSale).length > U64MAX ∨
       300 * (collections b.funds).length > U64MAX) := by
  obtain ⟨k, l, b, hl, hb, hs⟩ := (C17_buy_no_overflow_reach w0 ops buyer lid bid).2.2 _ ⟨rfl, h⟩
  have hleg : ∀ c e, (run w0 ops).env.regLookup c = some e → e.bps ≤ MAX_BPS := by
    intro c e he
    exact (C14_reach_bps hreg ops (c, e) (alookup_some_mem he)).2
  have h1 := bpsOf_le_of_legal hleg (collections l.forSale)
  have h2 := bpsOf_le_of_legal hleg (collections b.funds)
  rw [bpsOf_eq_sideEntries] at h1 h2
  refine ⟨k, l, b, hl, hb, ?_⟩
  rcases hs with hs | hs
  · exact .inl (by omega)
  · exact .inr (by omega)

/-- non-vacuity of `C17_buy_no_panic_reach`: the registry of the sample deployment is within
    bounds (and the sample purchase does not abort: it is accepted) -/
example : (∀ p ∈ AcctEx.w0.reg, MIN_BPS ≤ p.2.bps ∧ p.2.bps ≤ MAX_BPS) ∧
    (step C06CEx.w (.exec 2 [] (.buy 3 8))).2.err = none := by decide

/-! ### (b) the fee step -/

/-- "Fee … arithmetic is exact": in a purchase accepted in any reached state, for each side the
    fee recorded on the re-filed record and the balance handed to the royalty step are the result
    of `calcFeeCoin` on the side's old contents, and that step was exact (`FeeExact`): the fee is
    `⌊amount·5/1000⌋` of the side's amount of the current fee denomination `fd` (no fee coin when
    that is 0, in particular when the denomination is absent), every other entry is untouched, and
    fee + remainder = original amount; key uniqueness comes from `WFInv`.  (Holds for all amounts:
    `Op.fits128` is not needed.) -/
theorem C17_buy_fee_exact_reach (h0 : w0.mkt = instantiate t r) (ops : List Op)
    {buyer lid bid fd : Nat}
    (hfd : fd = feeDenomOf (run w0 ops).env (run w0 ops).mkt.feeKind)
    (hok : (step (run w0 ops) (.exec buyer [] (.buy lid bid))).2.ok = true) :
    ∃ l b l' b' lbal bbal,
      alookup (l.creator, lid) (run w0 ops).mkt.listings = some l ∧
      alookup (buyer, bid) (run w0 ops).mkt.buckets = some b ∧
      alookup (buyer, lid) (step (run w0 ops) (.exec buyer [] (.buy lid bid))).1.mkt.listings =
        some l' ∧
      alookup (l.creator, bid) (step (run w0 ops) (.exec buyer [] (.buy lid bid))).1.mkt.buckets =
        some b' ∧
      calcFeeCoin fd l.forSale = some (l'.fee, lbal) ∧
      calcFeeCoin fd b.funds = some (b'.fee, bbal) ∧
      FeeExact fd l.forSale l'.fee lbal ∧ FeeExact fd b.funds b'.fee bbal := by
  subst hfd
  obtain ⟨l, b, l', b', lbal, bbal, _, _, _, _, h1, h2, h3, h4, h5, h6, _, _, _, wl, wb⟩ :=
    step_buy_split (closed_ids h0 ops) (closed_wf0 h0 ops) hok
  exact ⟨l, b, l', b', lbal, bbal, h1, h2, h3, h4, h5, h6,
    FeeExact.of_calc (wfBal_keys wl).1 h5, FeeExact.of_calc (wfBal_keys wb).1 h6⟩

/-- non-vacuity of `C17_buy_fee_exact_reach`: it applies to the sample purchase (`C06CEx`: seller 1
    sells 1000 of the fee denomination 1, 400 of token 50 and an NFT of collection 60 for 2000 of
    denom 2) … -/
example := C17_buy_fee_exact_reach (w0 := AcctEx.w0) rfl C06CEx.ops
  (buyer := 2) (lid := 3) (bid := 8) rfl (by decide)
/-- … where the goods pay the fee 5 = ⌊1000·5/1000⌋ and the bucket (no denom 1) pays none -/
example : (step C06CEx.w (.exec 2 [] (.buy 3 8))).1.mkt.listings.map (fun p => p.2.fee) =
      [some ⟨1, 5⟩] ∧
    (step C06CEx.w (.exec 2 [] (.buy 3 8))).1.mkt.buckets.map (fun p => p.2.fee) = [none] := by
  decide

/-! ### (c) the royalty step -/

/-- "royalty arithmetic is exact … for all 128-bit amounts": in a purchase accepted in a state
    reached by operations that carry 128-bit amounts, the contents stored on each re-filed record
    and the royalty messages are the result of `royalties` on the side's after-fee balance with
    the registry's answers for the collections of the OPPOSITE side, and that step was exact
    (`RoyaltyExact`): per fungible entry, amount after fee = amount left in the record + sum of
    the royalty messages emitted for that entry; each message carries `⌊afterFee·bps/10⁴⌋` to the
    payout address of an entry `e` the registry holds for the collection of an NFT on the opposite
    side; nothing wraps and everything fits 128 bits.  The transaction's messages are the pending
    fee of the paying bucket, then the bucket's royalty messages, then the goods'. -/
theorem C17_buy_royalty_conserve_reach (h0 : w0.mkt = instantiate t r) (ops : List Op)
    (hfit : ∀ op ∈ ops, op.fits128) {buyer lid bid fd : Nat}
    (hfd : fd = feeDenomOf (run w0 ops).env (run w0 ops).mkt.feeKind)
    (hok : (step (run w0 ops) (.exec buyer [] (.buy lid bid))).2.ok = true) :
    ∃ l b l' b' lbal bbal msgsB msgsL sB sL,
      alookup (l.creator, lid) (run w0 ops).mkt.listings = some l ∧
      alookup (buyer, bid) (run w0 ops).mkt.buckets = some b ∧
      alookup (buyer, lid) (step (run w0 ops) (.exec buyer [] (.buy lid bid))).1.mkt.listings =
        some l' ∧
      alookup (l.creator, bid) (step (run w0 ops) (.exec buyer [] (.buy lid bid))).1.mkt.buckets =
        some b' ∧
      calcFeeCoin fd l.forSale = some (l'.fee, lbal) ∧
      calcFeeCoin fd b.funds = some (b'.fee, bbal) ∧
      -- the royalty step of the model, applied to each side after the fee
      royalties bbal ((collections l.forSale).map (run w0 ops).env.regLookup) =
        .ok b'.funds msgsB sB ∧
      royalties lbal ((collections b.funds).map (run w0 ops).env.regLookup) =
        .ok l'.forSale msgsL sL ∧
      (step (run w0 ops) (.exec buyer [] (.buy lid bid))).2.msgs =
        pendingFeeMsgs (run w0 ops).self b.fee ++ msgsB ++ msgsL ∧
      -- it was exact
      RoyaltyExact (sideEntries (run w0 ops).env l.forSale) bbal b'.funds msgsB ∧
      RoyaltyExact (sideEntries (run w0 ops).env b.funds) lbal l'.forSale msgsL ∧
      -- the entries charged are registered collections of the opposite side
      (∀ e ∈ sideEntries (run w0 ops).env l.forSale,
        ∃ n ∈ l.forSale.nfts, alookup n.coll (run w0 ops).reg = some e) ∧
      (∀ e ∈ sideEntries (run w0 ops).env b.funds,
        ∃ n ∈ b.funds.nfts, alookup n.coll (run w0 ops).reg = some e) := by
  subst hfd
  obtain ⟨l, b, l', b', lbal, bbal, msgsB, msgsL, sB, sL, h1, h2, h3, h4, h5, h6, h7, h8, h9, _, _⟩ :=
    step_buy_split (closed_ids h0 ops) (closed_wf0 h0 ops) hok
  have hB := closed_bounded h0 ops hfit
  have bl := (C17_fee_bounded (hB.lb _ (alookup_some_mem h1)) h5).1
  have bb := (C17_fee_bounded (hB.bb _ (alookup_some_mem h2)) h6).1
  exact ⟨l, b, l', b', lbal, bbal, msgsB, msgsL, sB, sL, h1, h2, h3, h4, h5, h6, h7, h8, h9,
    RoyaltyExact.of_royalties bb h7, RoyaltyExact.of_royalties bl h8,
    fun e he => mem_sideEntries.1 he, fun e he => mem_sideEntries.1 he⟩

/-- non-vacuity of `C17_buy_royalty_conserve_reach`: it applies to the sample purchase … -/
example := C17_buy_royalty_conserve_reach (w0 := AcctEx.w0) rfl C06CEx.ops (by decide)
  (buyer := 2) (lid := 3) (bid := 8) rfl (by decide)
/-- … where the seller's collection 60 (250 bps, payout address 6) charges the bucket's 2000 of
    denom 2 with 50 = ⌊2000·250/10⁴⌋, leaving 1950, and the goods (the buyer pays with no NFT)
    are charged nothing -/
example : sideEntries C06CEx.w.env ⟨[⟨1, 1000⟩], [⟨50, 400⟩], [⟨60, 7⟩]⟩ = [⟨200, 250, 6⟩] ∧
    (step C06CEx.w (.exec 2 [] (.buy 3 8))).2.msgs = [.bankSend 6 [⟨2, 50⟩]] ∧
    (step C06CEx.w (.exec 2 [] (.buy 3 8))).1.mkt.buckets.map (fun p => p.2.funds) =
      [⟨[⟨2, 1950⟩], [], []⟩] := by decide

/-- "never overflow": every amount a purchase accepted in a reached state stores or sends is a
    `Uint128` — the two fee coins, both after-fee balances, both stored balances (so `BoundedInv`
    holds again) and every royalty message. -/
theorem C17_buy_amounts_fit_reach (h0 : w0.mkt = instantiate t r) (ops : List Op)
    (hfit : ∀ op ∈ ops, op.fits128) {buyer lid bid : Nat}
    (hok : (step (run w0 ops) (.exec buyer [] (.buy lid bid))).2.ok = true) :
    ∃ l b l' b' msgsB msgsL,
      alookup (l.creator, lid) (run w0 ops).mkt.listings = some l ∧
      alookup (buyer, bid) (run w0 ops).mkt.buckets = some b ∧
      alookup (buyer, lid) (step (run w0 ops) (.exec buyer [] (.buy lid bid))).1.mkt.listings =
        some l' ∧
      alookup (l.creator, bid) (step (run w0 ops) (.exec buyer [] (.buy lid bid))).1.mkt.buckets =
        some b' ∧
      (step (run w0 ops) (.exec buyer [] (.buy lid bid))).2.msgs =
        pendingFeeMsgs (run w0 ops).self b.fee ++ msgsB ++ msgsL ∧
      (∀ f, l'.fee = some f → f.amount ≤ U128MAX) ∧ (∀ f, b'.fee = some f → f.amount ≤ U128MAX) ∧
      l'.forSale.bounded ∧ b'.funds.bounded ∧ (∀ x ∈ msgsB ++ msgsL, x.amtBounded) ∧
      BoundedInv (step (run w0 ops) (.exec buyer [] (.buy lid bid))).1.mkt := by
  obtain ⟨l, b, l', b', lbal, bbal, msgsB, msgsL, sB, sL, h1, h2, h3, h4, h5, h6, h7, h8, h9, _, _⟩ :=
    step_buy_split (closed_ids h0 ops) (closed_wf0 h0 ops) hok
  have hB := closed_bounded h0 ops hfit
  obtain ⟨bl, fl⟩ := C17_fee_bounded (hB.lb _ (alookup_some_mem h1)) h5
  obtain ⟨bb, fb⟩ := C17_fee_bounded (hB.bb _ (alookup_some_mem h2)) h6
  obtain ⟨rb, mb⟩ := C17_roy_bounded bb h7
  obtain ⟨rl, ml⟩ := C17_roy_bounded bl h8
  refine ⟨l, b, l', b', msgsB, msgsL, h1, h2, h3, h4, h9, fl, fb, rl, rb, ?_,
    closed_bounded_step _ hB ⟨fun c hc => (by cases hc), trivial⟩⟩
  intro x hx
  rcases List.mem_append.1 hx with hx | hx
  · exact mb x hx
  · exact ml x hx

/-- non-vacuity of `C17_buy_amounts_fit_reach` -/
example := C17_buy_amounts_fit_reach (w0 := AcctEx.w0) rfl C06CEx.ops (by decide)
  (buyer := 2) (lid := 3) (bid := 8) (by decide)

end

/-! ## axioms -/

#print axioms C17_buy_no_overflow_reach
#print axioms C17_buy_no_panic_reach
#print axioms C17_buy_fee_exact_reach
#print axioms C17_buy_royalty_conserve_reach
#print axioms C17_buy_amounts_fit_reach

end Fuzion
