/-
  Fuzion.Props.C10Faults — C10 ("Every fee charged reaches the community pool exactly once") along
  HISTORIES WITH FAULTS.

  Property text (C10):  Each fee recorded at a purchase is deposited into the chain's community
  pool in full and exactly once, by a well-formed fund-community-pool message whose depositor is
  the marketplace and whose amount is the recorded fee, no later than when that side's proceeds
  leave the marketplace.  It is never dropped, duplicated, paid to a user, or lost when the record
  is traded again before being withdrawn.

  A history with faults (`FOp`, `runF`, `survivors`: Props/C15Reach.lean) runs every operation with
  the dispatch of chosen messages forced to fail (`stepF fail`, Model/Chain.lean).  Proved here, for
  EVERY fault schedule:

  * `C10_conservation_faults_reach` — per denomination, pool balance + pending fees = initial pool
    balance + the fees charged by the operations that went through (`chargedRun w0 (survivors …)`);
    `C10_conservation_chargedF_faults_reach` the same with the charges summed along the faulty
    history itself (`chargedRunF`: the handler's charge of every ACCEPTED faulty transaction), and
    `C10_conservation_deployed_faults_reach` from a `Deployed` world.  A fault never loses or
    duplicates a fee.
  * `C10_step_faults_reach` — one faulty transaction from a state reached under faults moves
    pool + pending by exactly what it charges if accepted, and by nothing if aborted.
  * `C10_aborted_faults_reach` — an aborted faulty transaction reports no message at all (in the
    model a failed step reports `msgs = []`, whether it failed on its own or by the fault), and
    leaves the pool balance and every pending fee as they were.
  * `C10_wellformed_faults_reach` — every pool message reported by ANY faulty transaction from ANY
    state reached under faults belongs to an accepted transaction, names the marketplace as
    depositor and carries a recorded non-zero fee in one of the two fee denominations.
  * `C10_pool_fault_keeps_fee_faults_reach` — if the fault hits the pool deposit itself, the whole
    transaction is undone: the proceeds do not leave and the fee is still recorded (so it can be,
    and by conservation will be, paid by the retry).

  Hypotheses left: `w0.mkt = instantiate t r`, the pool is not the marketplace, no initial registry
  entry pays out to the pool (all three follow from `Deployed w0`), and — for the ledger theorems —
  no operation of the history, accepted or not, is signed by the pool or registers it as payout
  address ("nobody else pays the pool", as in `C10_conservation_reach`).
-/
import Fuzion.Props.C15Reach
namespace Fuzion

/-! ## fees charged along a history with faults -/

/-- fees charged along a history with faults: what the handler charges (`charged`, zero except for
    `buy`) in every faulty transaction that was ACCEPTED; an aborted one charges nothing -/
def chargedRunF (w : World) : List FOp → Nat → Nat
  | [], _ => 0
  | (fail, op) :: r, d =>
    (if (stepF fail w op).2.ok then
      (match op.asExec with
       | some (c, _, msg) => charged w.mkt w.env c msg d
       | none => 0)
     else 0) + chargedRunF (stepF fail w op).1 r d

/-- the charges of a faulty history are the charges of the fault-free replay of its survivors -/
theorem chargedRunF_eq_chargedRun (w : World) (fops : List FOp) (d : Nat) :
    chargedRunF w fops d = chargedRun w (survivors w fops) d := by
  induction fops generalizing w with
  | nil => rfl
  | cons p r ih =>
    obtain ⟨fail, op⟩ := p
    simp only [chargedRunF, survivors]
    cases h : (stepF fail w op).2.ok with
    | true =>
      have e := stepF_ok_eq_step h
      have h' : (step w op).2.ok = true := by rw [← e]; exact h
      simp only [if_true, chargedRun, chargedStep, h']
      rw [ih, e]
      rfl
    | false =>
      simp only [Bool.false_eq_true, if_false, Nat.zero_add]
      rw [ih, C15_abort fail w op h]

/-- a faulty transaction that is not accepted reports no messages (failed on its own: `Outcome.fail`;
    failed by the fault: `Outcome.fail .dispatch`) -/
theorem c10f_stepF_failed_msgs (fail : Nat → Bool) (w : World) (op : Op)
    (h : (stepF fail w op).2.ok = false) : (stepF fail w op).2.msgs = [] := by
  rcases (stepF_all_or_nothing fail w op).2.2 with e | e
  · rw [e]; rfl
  · rw [e] at h ⊢
    rcases reach_step_msgs w op with hn | ⟨_, _, _, _, _, _, _, hok⟩
    · exact hn
    · rw [hok] at h; cases h

section
variable {w0 : World} {t : Nat} {r : Option Nat}

/-! ## 1. conservation along histories with faults -/

/-- **C10 under faults** "Every fee charged reaches the community pool exactly once … never dropped,
    duplicated, paid to a user, or lost": along ANY history with faults from instantiation, per
    denomination, `pool balance + pending fees = initial pool balance + Σ fees charged by the
    operations that went through`.  An aborted transaction contributes nothing to either side:
    a fault never loses or duplicates a fee.  The side conditions are those of
    `C10_conservation_reach`, on the initial world and on ALL operations of the history (the
    survivors inherit them as a sub-list). -/
theorem C10_conservation_faults_reach (h0 : w0.mkt = instantiate t r) (hpool : w0.pool ≠ w0.self)
    (hpay : PayoutsNe w0.reg w0.pool) (fops : List FOp) (hops : ∀ p ∈ fops, p.2.avoids w0.pool)
    (d : Nat) :
    lget (runF w0 fops).bank (w0.pool, d) + pendingFee (runF w0 fops).mkt d =
      lget w0.bank (w0.pool, d) + chargedRun w0 (survivors w0 fops) d := by
  rw [C15_runF_is_run_of_survivors_reach]
  exact C10_conservation_reach h0 hpool hpay _
    (survivors_forall (P := fun op => op.avoids w0.pool) hops) d

/-- … with the charges summed along the faulty history itself: every ACCEPTED faulty transaction
    counts with what its handler charged, every aborted one with zero. -/
theorem C10_conservation_chargedF_faults_reach (h0 : w0.mkt = instantiate t r)
    (hpool : w0.pool ≠ w0.self) (hpay : PayoutsNe w0.reg w0.pool) (fops : List FOp)
    (hops : ∀ p ∈ fops, p.2.avoids w0.pool) (d : Nat) :
    lget (runF w0 fops).bank (w0.pool, d) + pendingFee (runF w0 fops).mkt d =
      lget w0.bank (w0.pool, d) + chargedRunF w0 fops d := by
  rw [chargedRunF_eq_chargedRun]
  exact C10_conservation_faults_reach h0 hpool hpay fops hops d

/-- … from a deployment (`Deployed`, Props/C01Closed.lean: fresh marketplace, empty registry, the
    pool is not the marketplace): the only hypothesis left is the one on the operations. -/
theorem C10_conservation_deployed_faults_reach (hd : Deployed w0) (fops : List FOp)
    (hops : ∀ p ∈ fops, p.2.avoids w0.pool) (d : Nat) :
    lget (runF w0 fops).bank (w0.pool, d) + pendingFee (runF w0 fops).mkt d =
      lget w0.bank (w0.pool, d) + chargedRun w0 (survivors w0 fops) d ∧
    chargedRun w0 (survivors w0 fops) d = chargedRunF w0 fops d := by
  obtain ⟨t, r, h0⟩ := hd.mkt
  have hpay : PayoutsNe w0.reg w0.pool := fun c e he => by rw [hd.reg0] at he; cases he
  exact ⟨C10_conservation_faults_reach h0 hd.pool hpay fops hops d,
    (chargedRunF_eq_chargedRun w0 fops d).symm⟩

/-- Conservation across ONE faulty transaction from any state reached under faults: pool balance +
    pending fees grows by exactly the fees the transaction charges if it is accepted, and does not
    move if it is aborted (by the fault or for a reason of its own). -/
theorem C10_step_faults_reach (h0 : w0.mkt = instantiate t r) (hpool : w0.pool ≠ w0.self)
    (hpay : PayoutsNe w0.reg w0.pool) (fops : List FOp) (hops : ∀ p ∈ fops, p.2.avoids w0.pool)
    (fail : Nat → Bool) {op : Op} (hop : op.avoids w0.pool) (d : Nat) :
    lget (stepF fail (runF w0 fops) op).1.bank (w0.pool, d) +
        pendingFee (stepF fail (runF w0 fops) op).1.mkt d =
      lget (runF w0 fops).bank (w0.pool, d) + pendingFee (runF w0 fops).mkt d +
        (if (stepF fail (runF w0 fops) op).2.ok then chargedStep (runF w0 fops) op d else 0) := by
  cases h : (stepF fail (runF w0 fops) op).2.ok with
  | false =>
    rw [C15_abort fail _ op h]
    simp
  | true =>
    rw [stepF_ok_eq_step h]
    simp only [if_true]
    rw [C15_runF_is_run_of_survivors_reach]
    exact C10_step_reach h0 hpool hpay _
      (survivors_forall (P := fun op => op.avoids w0.pool) hops) hop d

/-! ## 2. aborted transactions -/

/-- "never dropped, duplicated": a faulty transaction from a state reached under faults that is
    not accepted reports NO message (so no pool deposit is reported for a transaction that was
    rolled back), returns the very same world, and in particular leaves the pool balance, the
    pending fees and every record's `fee` field as they were.  No hypothesis. -/
theorem C10_aborted_faults_reach (w0 : World) (fops : List FOp) (fail : Nat → Bool) (op : Op)
    (h : (stepF fail (runF w0 fops) op).2.ok = false) :
    (stepF fail (runF w0 fops) op).2.msgs = [] ∧
    (stepF fail (runF w0 fops) op).1 = runF w0 fops ∧
    (∀ d, lget (stepF fail (runF w0 fops) op).1.bank (w0.pool, d) =
      lget (runF w0 fops).bank (w0.pool, d)) ∧
    (∀ d, pendingFee (stepF fail (runF w0 fops) op).1.mkt d = pendingFee (runF w0 fops).mkt d) ∧
    (∀ c, RecFee (stepF fail (runF w0 fops) op).1.mkt c ↔ RecFee (runF w0 fops).mkt c) := by
  have e := C15_abort fail (runF w0 fops) op h
  exact ⟨c10f_stepF_failed_msgs fail _ op h, e, fun d => by rw [e], fun d => by rw [e],
    fun c => by rw [e]⟩

/-! ## 3. the pool message is well-formed, faults or not -/

/-- **C10 under faults** "by a well-formed fund-community-pool message whose depositor is the
    marketplace and whose amount is the recorded fee": EVERY fund-community-pool message reported
    by ANY faulty transaction (any operation, any fault predicate) from ANY state reached from
    instantiation by a history with faults belongs to an accepted transaction — the fault-free one
    —, names the marketplace as depositor and carries the `fee` field of a record of the pre-state,
    non-zero and in one of the two fee denominations.  (A transaction that is aborted reports no
    message at all: `C10_aborted_faults_reach`.)  No hypothesis other than reachability. -/
theorem C10_wellformed_faults_reach (h0 : w0.mkt = instantiate t r) (fops : List FOp)
    (fail : Nat → Bool) (op : Op) :
    ∀ dep c, OutMsg.fundPool dep c ∈ (stepF fail (runF w0 fops) op).2.msgs →
      (stepF fail (runF w0 fops) op).2.ok = true ∧
      stepF fail (runF w0 fops) op = step (runF w0 fops) op ∧
      dep = w0.self ∧ RecFee (runF w0 fops).mkt c ∧ c.amount ≠ 0 ∧
      (c.key = w0.junoD ∨ c.key = w0.usdcD) := by
  intro dep c hm
  cases h : (stepF fail (runF w0 fops) op).2.ok with
  | false =>
    rw [c10f_stepF_failed_msgs fail _ op h] at hm; cases hm
  | true =>
    have e := stepF_ok_eq_step h
    refine ⟨rfl, e, ?_⟩
    rw [e] at hm
    rw [C15_runF_is_run_of_survivors_reach] at hm ⊢
    exact C10_wellformed_step_reach h0 _ op dep c hm

/-- "no later than when that side's proceeds leave the marketplace … never dropped": if the fault
    hits the community-pool deposit itself (position `k` of the messages of the fault-free
    transaction), the whole transaction is undone — the proceeds that precede the deposit in the
    same response do not leave either — and the fee is still the `fee` field of a stored record,
    non-zero and in a fee denomination: it is still owed, and by `C10_conservation_faults_reach`
    still counted as pending. -/
theorem C10_pool_fault_keeps_fee_faults_reach (h0 : w0.mkt = instantiate t r) (fops : List FOp)
    (fail : Nat → Bool) (op : Op) {k : Nat} {dep : Nat} {c : Coin}
    (hk : (step (runF w0 fops) op).2.msgs[k]? = some (.fundPool dep c)) (hf : fail k = true) :
    stepF fail (runF w0 fops) op = (runF w0 fops, .fail .dispatch) ∧
    RecFee (stepF fail (runF w0 fops) op).1.mkt c ∧ dep = w0.self ∧ c.amount ≠ 0 ∧
    (∀ d, pendingFee (stepF fail (runF w0 fops) op).1.mkt d = pendingFee (runF w0 fops).mkt d) := by
  obtain ⟨hlt, hget⟩ := List.getElem?_eq_some_iff.1 hk
  have e := stepF_fault_hit hlt hf
  have hm : OutMsg.fundPool dep c ∈ (step (runF w0 fops) op).2.msgs := by
    rw [← hget]; exact List.getElem_mem hlt
  have hw := C10_wellformed_faults_reach h0 fops noFault op dep c hm
  refine ⟨e, ?_, hw.2.2.1, hw.2.2.2.2.1, fun d => by rw [e]⟩
  rw [e]; exact hw.2.2.2.1

end

/-! ## non-vacuity

From the sample world `AcctEx.w0` (marketplace 100, pool 101; Lemmas/AcctLemmas.lean) the sample
history `AcctEx.ops` is run with faults: the purchase (one message: the royalty payout) is aborted
once and retried; the buyer's withdrawal (four messages, the pool deposit of the fee of 5 last) is
aborted with the fault on the pool deposit, then retried with a fault that misses; the seller's
bucket removal is aborted once and retried. -/

namespace C10FEx
def failAt (k : Nat) : Nat → Bool := fun i => i == k
def opBuy : Op := .exec 2 [] (.buy 3 8)
def opWd : Op := .exec 2 [] (.withdrawPurchased 3)
def opRm : Op := .exec 1 [] (.removeBucket 8)
/-- up to (excluding) the withdrawal: the purchase is aborted once, then goes through -/
def fopsA : List FOp :=
  (AcctEx.ops.take 6).map (fun op => (noFault, op)) ++
    [(failAt 0, opBuy), (noFault, opBuy), (noFault, .advance NS 1)]
/-- … then the withdrawal with the pool deposit (message 3) failing, its retry, the removal -/
def fops : List FOp :=
  fopsA ++ [(failAt 3, opWd), (failAt 4, opWd), (failAt 0, opRm), (noFault, opRm)]
end C10FEx

-- the hypotheses of the ledger theorems
example : AcctEx.w0.mkt = instantiate 0 (some 102) := rfl
example : AcctEx.w0.pool ≠ AcctEx.w0.self ∧ PayoutsNe AcctEx.w0.reg AcctEx.w0.pool ∧
    (∀ p ∈ C10FEx.fops, p.2.avoids AcctEx.w0.pool) ∧ C10FEx.opWd.avoids AcctEx.w0.pool :=
  ⟨by decide, AcctEx.w0_payouts 101 (by decide), by decide, by decide⟩
-- three transactions are aborted, the survivors are the sample history; one fee of 5 of denom 1 is
-- charged once although the purchase was attempted twice, and reaches the pool once although the
-- withdrawal was attempted twice
example : survivors AcctEx.w0 C10FEx.fops = AcctEx.ops ∧ C10FEx.fops.length = 13 ∧
    chargedRunF AcctEx.w0 C10FEx.fops 1 = 5 ∧ chargedRun AcctEx.w0 (survivors AcctEx.w0 C10FEx.fops) 1 = 5 ∧
    lget (runF AcctEx.w0 C10FEx.fops).bank (101, 1) = 5 ∧
    pendingFee (runF AcctEx.w0 C10FEx.fops).mkt 1 = 0 ∧ lget AcctEx.w0.bank (101, 1) = 0 := by decide
-- before the withdrawal the fee is pending, the pool empty
example : pendingFee (runF AcctEx.w0 C10FEx.fopsA).mkt 1 = 5 ∧
    lget (runF AcctEx.w0 C10FEx.fopsA).bank (101, 1) = 0 := by decide
-- `C10_aborted_faults_reach` / `C10_pool_fault_keeps_fee_faults_reach`: the withdrawal reports the
-- pool deposit as message 3; with the fault there it is aborted …
example : (step (runF AcctEx.w0 C10FEx.fopsA) C10FEx.opWd).2.msgs[3]? = some (.fundPool 100 ⟨1, 5⟩) ∧
    C10FEx.failAt 3 3 = true ∧
    (stepF (C10FEx.failAt 3) (runF AcctEx.w0 C10FEx.fopsA) C10FEx.opWd).2.ok = false := by decide
-- … `C10_wellformed_faults_reach`: with a fault that misses, the faulty transaction reports it
example : OutMsg.fundPool 100 ⟨1, 5⟩ ∈
    (stepF (C10FEx.failAt 4) (runF AcctEx.w0 C10FEx.fopsA) C10FEx.opWd).2.msgs := by decide
-- `C10_step_faults_reach`: the accepted purchase under a fault that misses charges 5
example : (stepF (C10FEx.failAt 1) (runF AcctEx.w0 (C10FEx.fopsA.take 6)) C10FEx.opBuy).2.ok = true ∧
    chargedStep (runF AcctEx.w0 (C10FEx.fopsA.take 6)) C10FEx.opBuy 1 = 5 ∧
    (stepF (C10FEx.failAt 0) (runF AcctEx.w0 (C10FEx.fopsA.take 6)) C10FEx.opBuy).2.ok = false := by
  decide
-- from a deployment: the faulty history of Props/C15Reach.lean
example : Deployed deployedEx := C02WEx.deployedEx_ok
example : ∀ p ∈ C15REx.fopsRetry, p.2.avoids deployedEx.pool := by decide

/-! ## axioms -/

#print axioms chargedRunF_eq_chargedRun
#print axioms C10_conservation_faults_reach
#print axioms C10_conservation_chargedF_faults_reach
#print axioms C10_conservation_deployed_faults_reach
#print axioms C10_step_faults_reach
#print axioms C10_aborted_faults_reach
#print axioms C10_wellformed_faults_reach
#print axioms C10_pool_fault_keeps_fee_faults_reach

end Fuzion
