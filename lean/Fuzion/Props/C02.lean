/-
  Fuzion.Props.C02 — "A purchase succeeds exactly when the seller's published terms are met".

  Property text (C02): A purchase succeeds if and only if the listing is finalized, unsold and
  not past its expiration, the caller is the whitelisted buyer when one is set, the caller owns
  the bucket, the bucket's contents equal the ask exactly (same assets and amounts, nothing extra
  or missing, in any order) and the royalties due on each side do not exceed 50%.  Otherwise it is
  refused with no effect; behaviour at the exact expiration instant is not constrained.

  The theorems are about `buy` (`execute_buy_listing`, execute.rs), `genbalCmp` (`genbal_cmp`,
  state.rs), the dispatcher `execute` and the transaction function `step`.  The terms are the
  predicate `BuyTerms` (Lemmas/BuyLemmas.lean); `C02_oracle` shows that the executable oracle
  `buyTerms` the driver evaluates on implementation states is the same predicate.
  Helper lemmas are in `Fuzion/Lemmas/BuyLemmas.lean`.  Core library only.
-/
import Fuzion.Lemmas.BuyLemmas
namespace Fuzion

/-! ### 1. "the bucket's contents equal the ask exactly … in any order" -/

/-- What `genbal_cmp` tests, for **arbitrary** balances: per asset class the two lists are equally
    long and every entry (denomination *and* amount) of the bucket occurs in the ask. -/
theorem C02_cmp_sound {a b : GBal} (h : genbalCmp a b = true) :
    (a.native.length = b.native.length ∧ ∀ c ∈ a.native, c ∈ b.native) ∧
    (a.cw20.length = b.cw20.length ∧ ∀ c ∈ a.cw20, c ∈ b.cw20) ∧
    (a.nfts.length = b.nfts.length ∧ ∀ n ∈ a.nfts, n ∈ b.nfts) := by
  obtain ⟨h1, h2, h3⟩ := (genbalCmp_iff a b).1 h
  rw [subsetLen_iff_subset] at h1 h2 h3
  exact ⟨⟨h1.2, h1.1⟩, ⟨h2.2, h2.1⟩, ⟨h3.2, h3.1⟩⟩

/-- non-vacuity of `C02_cmp_sound` -/
example : genbalCmp BuyEx.pay BuyEx.ask = true := by decide

/-- "in any order": balances that are equal up to the order of their entries always compare
    equal (no hypothesis on the balances). -/
theorem C02_cmp_of_perm {a b : GBal} (h1 : a.native.Perm b.native) (h2 : a.cw20.Perm b.cw20)
    (h3 : a.nfts.Perm b.nfts) : genbalCmp a b = true :=
  (genbalCmp_iff a b).2 ⟨subsetLen_of_perm h1, subsetLen_of_perm h2, subsetLen_of_perm h3⟩

/-- non-vacuity of `C02_cmp_of_perm`: `pay` is `ask` with the two CW20 entries swapped -/
example : BuyEx.pay.native.Perm BuyEx.ask.native ∧ BuyEx.pay.cw20.Perm BuyEx.ask.cw20 ∧
    BuyEx.pay.nfts.Perm BuyEx.ask.nfts ∧ BuyEx.pay ≠ BuyEx.ask :=
  ⟨List.Perm.refl _, List.Perm.swap _ _ _, List.Perm.refl _, by decide⟩

/-- "same assets and amounts, nothing extra or missing, in any order": as soon as the *bucket's*
    three lists are duplicate-free (which `check_valid` guarantees for every stored bucket, C12),
    `genbal_cmp` is exactly equality up to order — for any second argument. -/
theorem C02_cmp_iff_of_nodup {a b : GBal} (h1 : a.native.Nodup) (h2 : a.cw20.Nodup)
    (h3 : a.nfts.Nodup) :
    genbalCmp a b = true ↔ a.native.Perm b.native ∧ a.cw20.Perm b.cw20 ∧ a.nfts.Perm b.nfts := by
  rw [genbalCmp_iff, subsetLen_iff_perm_left h1, subsetLen_iff_perm_left h2,
    subsetLen_iff_perm_left h3]

/-- non-vacuity of `C02_cmp_iff_of_nodup` -/
example : BuyEx.pay.native.Nodup ∧ BuyEx.pay.cw20.Nodup ∧ BuyEx.pay.nfts.Nodup := by decide

/-- The form asked for: for a well-formed bucket balance and a well-formed ask, `genbal_cmp` is
    equality up to order.  (Only `wfBal a` is used; see `C02_cmp_iff_of_nodup`.) -/
theorem C02_cmp_iff {a b : GBal} (ha : wfBal a = true) (_hb : wfAsk b = true) :
    genbalCmp a b = true ↔ a.native.Perm b.native ∧ a.cw20.Perm b.cw20 ∧ a.nfts.Perm b.nfts := by
  obtain ⟨h1, h2, h3⟩ := wfBal_nodup ha
  exact C02_cmp_iff_of_nodup h1 h2 h3

/-- non-vacuity of `C02_cmp_iff` -/
example : wfBal BuyEx.pay = true ∧ wfAsk BuyEx.ask = true ∧ genbalCmp BuyEx.pay BuyEx.ask = true := by
  decide

/-- Why well-formedness matters: on balances with a repeated entry `genbal_cmp` accepts a bucket
    that is *not* the ask (two copies of one coin against two different coins).  Stored buckets
    never look like this (C12), so this is not reachable. -/
example : genbalCmp ⟨[⟨1, 5⟩, ⟨1, 5⟩], [], []⟩ ⟨[⟨1, 5⟩, ⟨2, 9⟩], [], []⟩ = true := by decide

/-! ### 2. the handler: "A purchase succeeds if and only if …" -/

/-- "A purchase succeeds **only if** …": no hypothesis at all — whatever registry address is
    stored, an accepted `buy` means every one of the published terms holds. -/
theorem C02_buy_only_if {m : Market} {env : Env} {buyer lid bid : Nat}
    (h : ∃ r, buy m env buyer lid bid = .ok r) : BuyTerms m env buyer lid bid := by
  obtain ⟨r, h⟩ := h
  exact BuyTerms.of_ok h

/-- non-vacuity of `C02_buy_only_if` -/
example : ∃ r, buy BuyEx.mkt BuyEx.env 20 1 2 = .ok r := ⟨_, BuyEx.buy_eq⟩

/-- "A purchase succeeds **if and only if** the listing is finalized, unsold and not past its
    expiration, the caller is the whitelisted buyer when one is set, the caller owns the bucket,
    the bucket's contents equal the ask … and the royalties due on each side do not exceed 50%."

    The only hypothesis is that the marketplace stores the address of the real registry (what
    `instantiate` + `reply` establish).  No bound on rates or on the number of collections is
    needed: if the `u64` rate sum overflowed the Rust would abort, which is a refusal too, and
    the terms are false in that case (sum > 5000); the fee split never fails (`C17_fee_total`)
    and the royalty split succeeds exactly when the sum is ≤ 5000 (`C17_roy_total_any`). -/
theorem C02_buy_iff {m : Market} {env : Env} {buyer lid bid : Nat}
    (hreg : m.registry = some env.regAddr) :
    (∃ r, buy m env buyer lid bid = .ok r) ↔ BuyTerms m env buyer lid bid := by
  refine ⟨C02_buy_only_if, ?_⟩
  rintro ⟨k, l, b, hl, hb, hs, hcl, he, hw, ho, hc, h1, h2⟩
  obtain ⟨lfee, lbal, e1⟩ := C17_fee_total (feeDenomOf env m.feeKind) l.forSale
  obtain ⟨bfee, bbal, e2⟩ := C17_fee_total (feeDenomOf env m.feeKind) b.funds
  obtain ⟨fb, msgs1, s1, r1⟩ := (sideRoyalties_ok_iff env (collections l.forSale) bbal).2 h1
  obtain ⟨fl, msgs2, s2, r2⟩ := (sideRoyalties_ok_iff env (collections b.funds) lbal).2 h2
  exact ⟨_, buy_of hb hl ho hc hs hw hcl he e1 e2 hreg r1 r2⟩

/-- non-vacuity of `C02_buy_iff`: the example market stores the registry address, and both sides
    of the equivalence are inhabited (bucket 2 is accepted, bucket 4 — wrong contents — is not) -/
example : BuyEx.mkt.registry = some BuyEx.env.regAddr ∧
    (∃ r, buy BuyEx.mkt BuyEx.env 20 1 2 = .ok r) ∧
    buy BuyEx.mkt BuyEx.env 30 1 4 = .error .askMismatch :=
  ⟨rfl, ⟨_, BuyEx.buy_eq⟩, rfl⟩

/-- The same equivalence with "equal … in any order" spelled out: under the record invariant
    (C12, `WFInv`) the contents clause of the terms is equality of the three asset lists up to
    order. -/
theorem C02_buy_iff_perm {m : Market} {env : Env} {buyer lid bid j u : Nat}
    (hreg : m.registry = some env.regAddr) (hwf : WFInv j u m) :
    (∃ r, buy m env buyer lid bid = .ok r) ↔
    ∃ k l b, findById lid m.listings = some (k, l) ∧ alookup (buyer, bid) m.buckets = some b ∧
      l.status = .finalized ∧ l.claimant = none ∧ (∀ e, l.expiresAt = some e → env.nowNs ≤ e) ∧
      (∀ x, l.whitelist = some x → x = buyer) ∧ b.owner = buyer ∧
      (b.funds.native.Perm l.ask.native ∧ b.funds.cw20.Perm l.ask.cw20 ∧
        b.funds.nfts.Perm l.ask.nfts) ∧
      bpsOf env (collections l.forSale) ≤ 5000 ∧ bpsOf env (collections b.funds) ≤ 5000 := by
  rw [C02_buy_iff hreg]
  have key : ∀ (b : Bucket) (g : GBal), alookup (buyer, bid) m.buckets = some b →
      (genbalCmp b.funds g = true ↔
        b.funds.native.Perm g.native ∧ b.funds.cw20.Perm g.cw20 ∧ b.funds.nfts.Perm g.nfts) := by
    intro b g hb
    have hw := hwf.bwf _ (alookup_some_mem hb)
    simp only [wfBucket, Bool.and_eq_true] at hw
    obtain ⟨h1, h2, h3⟩ := wfBal_nodup hw.1.2
    exact C02_cmp_iff_of_nodup h1 h2 h3
  constructor
  · rintro ⟨k, l, b, hl, hb, hs, hcl, he, hw, ho, hc, h1, h2⟩
    exact ⟨k, l, b, hl, hb, hs, hcl, he, hw, ho, (key b _ hb).1 hc, h1, h2⟩
  · rintro ⟨k, l, b, hl, hb, hs, hcl, he, hw, ho, hc, h1, h2⟩
    exact ⟨k, l, b, hl, hb, hs, hcl, he, hw, ho, (key b _ hb).2 hc, h1, h2⟩

/-- non-vacuity of `C02_buy_iff_perm` -/
example : BuyEx.mkt.registry = some BuyEx.env.regAddr ∧ WFInv 100 101 BuyEx.mkt := ⟨rfl, BuyEx.wf⟩

/-- Refusal by abort: with registry-legal rates (≤ 300 bps, what the registry enforces, C14) and
    a number `n` of distinct collections with `300·n ≤ u64::MAX` on each side, the royalty pass
    of a side never aborts — it answers `ok` or the 50 % error.  (Exact side condition for the
    `u64` sum; any stored balance has `n ≤ 25`.) -/
theorem C02_no_abort {env : Env} (hl : ∀ c r, env.regLookup c = some r → r.bps ≤ MAX_BPS)
    (ra : Nat) (g bal : GBal) (hn : 300 * (collections g).length ≤ U64MAX) :
    sideRoyalties env ra (collections g) bal ≠ .panic :=
  sideRoyalties_no_panic hl ra hn bal

/-- non-vacuity of `C02_no_abort` -/
example : (∀ c r, BuyEx.env.regLookup c = some r → r.bps ≤ MAX_BPS) ∧
    300 * (collections BuyEx.goods).length ≤ U64MAX := by
  refine ⟨?_, by decide⟩
  intro c r h
  simp only [BuyEx.env, World.env, BuyEx.world, regSingle, alookup] at h
  split at h
  · cases h; decide
  · cases h

/-- The same for the whole handler: under those hypotheses for every stored record, `buy` never
    ends in the abort branch — every refusal is an ordinary error. -/
theorem C02_buy_no_abort {m : Market} {env : Env} {buyer lid bid : Nat}
    (hl : ∀ c r, env.regLookup c = some r → r.bps ≤ MAX_BPS)
    (hn : ∀ p ∈ m.listings, 300 * (collections p.2.forSale).length ≤ U64MAX)
    (hb : ∀ p ∈ m.buckets, 300 * (collections p.2.funds).length ≤ U64MAX) :
    buy m env buyer lid bid ≠ .error .panic :=
  buy_no_panic hl hn hb

/-- non-vacuity of `C02_buy_no_abort` (the rate hypothesis is shown in the previous example) -/
example : (∀ p ∈ BuyEx.mkt.listings, 300 * (collections p.2.forSale).length ≤ U64MAX) ∧
    (∀ p ∈ BuyEx.mkt.buckets, 300 * (collections p.2.funds).length ≤ U64MAX) := by decide

/-- "Otherwise it is refused": when some term fails the handler answers an error (and, being a
    pure function into `Except`, returns no state at all). -/
theorem C02_buy_refused_iff {m : Market} {env : Env} {buyer lid bid : Nat}
    (hreg : m.registry = some env.regAddr) :
    (∃ e, buy m env buyer lid bid = .error e) ↔ ¬ BuyTerms m env buyer lid bid := by
  rw [← C02_buy_iff hreg]
  cases buy m env buyer lid bid with
  | error e => simp
  | ok r => simp

/-- non-vacuity of `C02_buy_refused_iff`: bucket 4 does not hold the ask -/
example : BuyEx.mkt.registry = some BuyEx.env.regAddr ∧
    buy BuyEx.mkt BuyEx.env 30 1 4 = .error .askMismatch := ⟨rfl, rfl⟩

/-! ### 3. through the entry point -/

/-- "A purchase succeeds if and only if …", for the message as the contract receives it:
    `ExecuteMsg::BuyListing` is accepted iff it carries no coins (repair of D6) and the terms
    hold. -/
theorem C02_execute_iff {m : Market} {env : Env} {buyer lid bid : Nat} {funds : List Coin}
    (hreg : m.registry = some env.regAddr) :
    (∃ r, execute m env buyer funds (.buy lid bid) = .ok r) ↔
      funds = [] ∧ BuyTerms m env buyer lid bid := by
  by_cases hf : funds = []
  · subst hf
    rw [execute_buy_nil, C02_buy_iff hreg]
    simp
  · rw [execute_buy_funds m env buyer lid bid hf]
    simp [hf]

/-- non-vacuity of `C02_execute_iff` -/
example : BuyEx.mkt.registry = some BuyEx.env.regAddr ∧
    (∃ r, execute BuyEx.mkt BuyEx.env 20 [] (.buy 1 2) = .ok r) ∧
    execute BuyEx.mkt BuyEx.env 20 [⟨100, 1⟩] (.buy 1 2) = .error .fundsAttached :=
  ⟨rfl, ⟨_, (execute_buy_nil _ _ _ _ _).trans BuyEx.buy_eq⟩, rfl⟩

/-- without coins the entry point is the handler -/
theorem C02_execute_eq (m : Market) (env : Env) (buyer lid bid : Nat) :
    execute m env buyer [] (.buy lid bid) = buy m env buyer lid bid :=
  execute_buy_nil m env buyer lid bid

/-! ### 4. "Otherwise it is refused with no effect" -/

/-- "refused with no effect": a refused transaction — of any kind, with or without an injected
    message failure — leaves the whole world (both contracts' storage, all ledgers, the clock)
    exactly as it was. -/
theorem C02_refused_noop_fault (fail : Nat → Bool) (w : World) (op : Op)
    (h : (stepF fail w op).2.ok = false) : (stepF fail w op).1 = w :=
  stepF_refused_noop fail w op h

/-- "refused with no effect", for `step` -/
theorem C02_refused_noop (w : World) (op : Op) (h : (step w op).2.ok = false) :
    (step w op).1 = w :=
  stepF_refused_noop noFault w op h

/-- non-vacuity of `C02_refused_noop`: the purchase with the wrong bucket is refused -/
example : (step BuyEx.world (.exec 30 [] (.buy 1 4))).2.ok = false := by decide

/-! ### 5. the executable oracle -/

/-- The oracle the driver evaluates on implementation states (`buyTerms`, Inv/Defs.lean) is the
    predicate of the theorems. -/
theorem C02_oracle (w : World) (buyer lid bid : Nat) :
    buyTerms w buyer lid bid = true ↔ BuyTerms w.mkt w.env buyer lid bid := by
  unfold buyTerms BuyTerms
  cases hl : findById lid w.mkt.listings with
  | none => simp
  | some p =>
    obtain ⟨k, l⟩ := p
    cases hb : alookup (buyer, bid) w.mkt.buckets with
    | none => simp
    | some b =>
      simp only [Bool.and_eq_true, decide_eq_true_eq]
      constructor
      · rintro ⟨⟨⟨⟨⟨⟨⟨h1, h2⟩, h3⟩, h4⟩, h5⟩, h6⟩, h7⟩, h8⟩
        refine ⟨k, l, b, rfl, rfl, h1, ?_, ?_, ?_, h5, h6, h7, h8⟩
        · cases hc : l.claimant <;> simp [hc] at h2 ⊢
        · intro e he
          rw [he] at h3
          simpa [World.env] using h3
        · intro x hx
          rw [hx] at h4
          simpa using h4
      · rintro ⟨k', l', b', e1, e2, h1, h2, h3, h4, h5, h6, h7, h8⟩
        cases e1; cases e2
        refine ⟨⟨⟨⟨⟨⟨⟨h1, ?_⟩, ?_⟩, ?_⟩, h5⟩, h6⟩, h7⟩, h8⟩
        · simp [h2]
        · cases he : l.expiresAt with
          | none => rfl
          | some e => simpa [World.env] using h3 e he
        · cases hx : l.whitelist with
          | none => rfl
          | some x => simpa using h4 x hx

/-- both values of the oracle occur -/
example : buyTerms BuyEx.world 20 1 2 = true ∧ buyTerms BuyEx.world 30 1 4 = false := by decide

/-! ### 6. the transaction -/

/-- "A purchase succeeds **only if** …", for a whole transaction: if the purchase transaction
    succeeds, the terms held in the state it was submitted to. -/
theorem C02_step_only_if {w : World} {buyer lid bid : Nat}
    (h : (step w (.exec buyer [] (.buy lid bid))).2.ok = true) :
    BuyTerms w.mkt w.env buyer lid bid := by
  rcases stepF_market (fail := noFault) (w := w) (op := .exec buyer [] (.buy lid bid)) rfl with
    ⟨e, he⟩ | ⟨m', msgs, w2, hx, _, _, _⟩
  · unfold step at h; rw [he] at h; cases h
  · rw [execute_buy_nil] at hx
    exact C02_buy_only_if ⟨_, hx⟩

/-- non-vacuity of `C02_step_only_if` -/
example : (step BuyEx.world (.exec 20 [] (.buy 1 2))).2.ok = true := by decide

/-- … and with coins attached the transaction is always refused -/
theorem C02_step_funds {w : World} {buyer lid bid : Nat} {funds : List Coin} (hf : funds ≠ []) :
    (step w (.exec buyer funds (.buy lid bid))).2.ok = false := by
  rcases stepF_market (fail := noFault) (w := w) (op := .exec buyer funds (.buy lid bid)) rfl with
    ⟨e, he⟩ | ⟨m', msgs, w2, hx, _, _, _⟩
  · unfold step; rw [he]; rfl
  · rw [execute_buy_funds _ _ _ _ _ hf] at hx; cases hx

/-- non-vacuity of `C02_step_funds` -/
example : ([⟨100, 1⟩] : List Coin) ≠ [] := by decide

/-- "A purchase succeeds **if** …", for a whole transaction.  The handler accepts (by
    `C02_buy_iff`); the transaction then succeeds provided every message the handler emitted
    (royalty payouts, a pending fee) can be delivered — solvency of the marketplace (C01) and the
    behaviour of the token contracts, which are not part of the terms and are established
    elsewhere; here it is the explicit hypothesis `hd`. -/
theorem C02_step_if {w : World} {buyer lid bid : Nat} (hreg : w.mkt.registry = some w.regAddr)
    (hT : BuyTerms w.mkt w.env buyer lid bid)
    (hd : ∀ m' msgs, buy w.mkt w.env buyer lid bid = .ok (m', msgs) →
      (dispatchAll noFault { w with mkt := m' } msgs 0).isSome) :
    (step w (.exec buyer [] (.buy lid bid))).2.ok = true := by
  obtain ⟨⟨m', msgs⟩, hb⟩ := (C02_buy_iff (env := w.env) hreg).2 hT
  have hx : execute w.mkt w.env buyer [] (.buy lid bid) = .ok (m', msgs) := by
    rw [execute_buy_nil]; exact hb
  have hs := hd m' msgs hb
  cases hd' : dispatchAll noFault { w with mkt := m' } msgs 0 with
  | none => rw [hd'] at hs; cases hs
  | some w2 => simp [step, stepF, runMarket, hx, hd']

/-- non-vacuity of `C02_step_if`: in the example world the registry address is stored, the terms
    hold and the one royalty payout is deliverable -/
example : BuyEx.world.mkt.registry = some BuyEx.world.regAddr ∧
    BuyTerms BuyEx.world.mkt BuyEx.world.env 20 1 2 ∧
    ∀ m' msgs, buy BuyEx.world.mkt BuyEx.world.env 20 1 2 = .ok (m', msgs) →
      (dispatchAll noFault { BuyEx.world with mkt := m' } msgs 0).isSome := by
  refine ⟨rfl, (C02_oracle _ _ _ _).1 (by decide), ?_⟩
  intro m' msgs h
  have h2 : buy BuyEx.world.mkt BuyEx.world.env 20 1 2 = .ok BuyEx.bought := BuyEx.buy_eq
  rw [h2] at h
  cases h
  decide

/-- "Otherwise it is refused with no effect", for the purchase transaction: when some term fails
    the transaction is refused and the world is exactly what it was. -/
theorem C02_step_refused {w : World} {buyer lid bid : Nat}
    (hT : ¬ BuyTerms w.mkt w.env buyer lid bid) :
    (step w (.exec buyer [] (.buy lid bid))).2.ok = false ∧
    (step w (.exec buyer [] (.buy lid bid))).1 = w := by
  have h : (step w (.exec buyer [] (.buy lid bid))).2.ok = false := by
    cases hok : (step w (.exec buyer [] (.buy lid bid))).2.ok with
    | false => rfl
    | true => exact absurd (C02_step_only_if hok) hT
  exact ⟨h, C02_refused_noop w _ h⟩

/-- non-vacuity of `C02_step_refused`: the terms fail for the wrong bucket -/
example : ¬ BuyTerms BuyEx.world.mkt BuyEx.world.env 30 1 4 := by
  rw [← C02_oracle]; decide

/-- The transaction-level equivalence under the deliverability hypothesis. -/
theorem C02_step_iff {w : World} {buyer lid bid : Nat} (hreg : w.mkt.registry = some w.regAddr)
    (hd : ∀ m' msgs, buy w.mkt w.env buyer lid bid = .ok (m', msgs) →
      (dispatchAll noFault { w with mkt := m' } msgs 0).isSome) :
    (step w (.exec buyer [] (.buy lid bid))).2.ok = true ↔ BuyTerms w.mkt w.env buyer lid bid :=
  ⟨C02_step_only_if, fun hT => C02_step_if hreg hT hd⟩

/-- non-vacuity of `C02_step_iff`: same hypotheses as `C02_step_if` (see the example above) -/
example : BuyEx.world.mkt.registry = some BuyEx.world.regAddr := rfl

/-! ### 7. "behaviour at the exact expiration instant is not constrained" -/

/-- What the code does at the edge: for a listing expiring at `e`, a purchase at time `t` is
    accepted iff `t ≤ e` and it is accepted at the instant `e` itself.  So at exactly `e` the
    purchase is still accepted when the other terms hold (the property leaves this instant
    free; the Rust tests `now > expiration`), and one nanosecond later it is refused. -/
theorem C02_expiry_edge {m : Market} {env : Env} {buyer lid bid : Nat} {k : Nat × Nat} {l : Listing}
    {e : Nat} (hreg : m.registry = some env.regAddr)
    (hl : findById lid m.listings = some (k, l)) (he : l.expiresAt = some e) (t : Nat) :
    (∃ r, buy m { env with nowNs := t } buyer lid bid = .ok r) ↔
      t ≤ e ∧ ∃ r, buy m { env with nowNs := e } buyer lid bid = .ok r := by
  rw [C02_buy_iff (env := { env with nowNs := t }) hreg,
    C02_buy_iff (env := { env with nowNs := e }) hreg]
  constructor
  · rintro ⟨k', l', b, hl', hb, hs, hcl, hx, hw, ho, hc, h1, h2⟩
    rw [hl] at hl'; cases hl'
    exact ⟨hx e he, k, l, b, hl, hb, hs, hcl,
      fun e' he' => by rw [he] at he'; cases he'; exact Nat.le_refl _, hw, ho, hc, h1, h2⟩
  · rintro ⟨hte, k', l', b, hl', hb, hs, hcl, _, hw, ho, hc, h1, h2⟩
    rw [hl] at hl'; cases hl'
    exact ⟨k, l, b, hl, hb, hs, hcl,
      fun e' he' => by rw [he] at he'; cases he'; exact hte, hw, ho, hc, h1, h2⟩

/-- one nanosecond (or more) past the expiration every purchase of the listing is refused -/
theorem C02_expiry_after {m : Market} {env : Env} {buyer lid bid : Nat} {k : Nat × Nat} {l : Listing}
    {e : Nat} (hl : findById lid m.listings = some (k, l)) (he : l.expiresAt = some e)
    (ht : e < env.nowNs) : ∃ err, buy m env buyer lid bid = .error err := by
  cases hb : buy m env buyer lid bid with
  | error err => exact ⟨err, rfl⟩
  | ok r =>
    obtain ⟨k', l', b, hl', _, _, _, hx, _⟩ := C02_buy_only_if ⟨r, hb⟩
    rw [hl] at hl'; cases hl'
    have := hx e he
    omega

/-- non-vacuity of `C02_expiry_edge` / `C02_expiry_after`, computed: the example listing expires
    at `tExp`; bucket 2 buys it at exactly `tExp` and is refused at `tExp + 1` -/
example : BuyEx.mkt.registry = some BuyEx.env.regAddr ∧
    findById 1 BuyEx.mkt.listings = some ((10, 1), BuyEx.lst) ∧
    BuyEx.lst.expiresAt = some BuyEx.tExp ∧
    (∃ r, buy BuyEx.mkt { BuyEx.env with nowNs := BuyEx.tExp } 20 1 2 = .ok r) ∧
    buy BuyEx.mkt { BuyEx.env with nowNs := BuyEx.tExp + 1 } 20 1 2 = .error .expired :=
  ⟨rfl, rfl, rfl, ⟨_, rfl⟩, rfl⟩

#print axioms C02_cmp_sound
#print axioms C02_cmp_of_perm
#print axioms C02_cmp_iff_of_nodup
#print axioms C02_cmp_iff
#print axioms C02_buy_only_if
#print axioms C02_buy_iff
#print axioms C02_buy_iff_perm
#print axioms C02_no_abort
#print axioms C02_buy_no_abort
#print axioms C02_buy_refused_iff
#print axioms C02_execute_iff
#print axioms C02_execute_eq
#print axioms C02_refused_noop_fault
#print axioms C02_refused_noop
#print axioms C02_oracle
#print axioms C02_step_only_if
#print axioms C02_step_funds
#print axioms C02_step_if
#print axioms C02_step_refused
#print axioms C02_step_iff
#print axioms C02_expiry_edge
#print axioms C02_expiry_after

end Fuzion
