/-
  Fuzion.Props.C07 — "Nothing gets stuck: every escrowed asset is always recoverable".

  Property text:  From every reachable state each record can be cashed out by its entitled party
  with a single message: an unfinalized listing by its creator at once, a finalized unsold listing
  by its creator once expired, a sold listing by its buyer at once, a bucket by its current owner
  at once.  After all parties do so the marketplace holds no assets and no records remain.

  Structure
  * handler level (`C07_exit_preparing`, `C07_exit_expired`, `C07_exit_sold`, `C07_exit_bucket`,
    collected in `C07_exit_handler`; through `execute`: `C07_exit_execute_listing/_bucket`): under
    the storage invariants `IdsInv` (C09) and `WFInv` (C12) the exit message of the entitled party
    is accepted, removes exactly that record and emits exactly the record's payout messages.
  * chain level (`C07_chain_accepts`, proved as `withdraw_dispatch_ok` in
    Fuzion/Lemmas/ExitLemmas.lean): the bank and the token contracts accept every message of a
    payout list if the marketplace holds what the list names.
  * world level (`C07_exit_step_listing`, `C07_exit_step_bucket`, `C07_exit_step`): under the
    run-level invariant `C01Inv` (ids, well-formedness, *exactly backed*, C01) the whole
    transaction succeeds — "held = promised" (C01) is what makes the payout affordable, and the
    pending fee is part of "promised", which is why the closing fee deposit is covered even when
    its denomination coincides with one of the goods just sent.
  * `C07_drain`: one exit message per record, listings first, then buckets: every transaction of
    that history succeeds, afterwards no record remains, and (C01 again) the marketplace holds no
    native coin, no honest CW20 token and no NFT of an honest collection.
  * `C07_reachable`: "from every reachable state" — the hypotheses of the theorems above
    (`C01Inv`, honest assets, no record owned by the marketplace's own address: `Reach`) hold after
    every history, started in a clean state, whose operations are not signed by the marketplace
    (`Op.avoids`) and contain no *direct* call of a receive hook (`Op.unforged`; such a call is the
    forgery of finding C18).  Preservation: `C07_clean_step`, `C07_reach_step`, `C07_reach_run`.

  Side condition (finding C18, known): a record may contain an "asset" of a hostile contract,
  recorded through a forged `Receive` / `ReceiveNft` call.  Such a contract can reject the transfer
  and thereby block the exit of *that* record — that is exactly the known defect, not a gap of
  this proof.  The world-level theorems therefore assume `HonestAssets w g` for the record's
  balance `g` (Fuzion/Lemmas/ExitLemmas.lean):
      `HonestAssets w g := (∀ c ∈ g.cw20, w.isHonest20 c.key = true) ∧
                            (∀ n ∈ g.nfts, w.isHonest721 n.coll = true)`
  i.e. every CW20 entry is a token of kind 1 and every NFT a collection of kind 2 of the chain
  model.  Records holding only native coins satisfy it trivially (`C07_honest_native_only`).
-/
import Fuzion.Lemmas.ExitLemmas
import Fuzion.Props.C01Closed
namespace Fuzion

/-! ## sample data for the non-vacuity examples -/

namespace C07Ex

/-- a preparing listing of account 1 (id 3): 1000 of denom 1 and 5 of the honest token 50 -/
def lPrep : Listing := newListing 1 3 none ⟨[⟨1, 1000⟩], [⟨50, 5⟩], []⟩ ⟨[⟨2, 2000⟩], [], []⟩
/-- a finalized listing of account 1 (id 4) that expired at 700·10⁹ -/
def lFin : Listing :=
  { lPrep with id := 4, finalizedAt := some (100 * NS), expiresAt := some (700 * NS), status := .finalized,
               forSale := ⟨[⟨2, 10⟩], [], [⟨60, 7⟩]⟩ }
/-- a sold listing now owned by account 2 (id 5), with a pending fee in denom 1 -/
def lSold : Listing :=
  { lFin with creator := 2, id := 5, status := .closed, claimant := some 2, fee := some ⟨1, 5⟩,
              forSale := ⟨[⟨1, 995⟩], [], []⟩ }
/-- a bucket of account 2 (id 8) with a pending fee in denom 2 -/
def bkt : Bucket := ⟨2, ⟨[⟨2, 2000⟩], [], []⟩, some ⟨2, 10⟩⟩

def mkt : Market :=
  { listings := [((1, 3), lPrep), ((1, 4), lFin), ((2, 5), lSold)], buckets := [((2, 8), bkt)],
    listingUsed := [5, 4, 3, 0], bucketUsed := [8, 0], feeKind := .juno, feeSince := 0, registry := some 9 }

/-- marketplace 100, pool 101; token 50 honest CW20, collection 60 honest CW721; now = 800·10⁹ -/
def w : World :=
  { self := 100, pool := 101, regAddr := 9, junoD := 1, usdcD := 2, nowNs := 800 * NS, height := 10,
    mkt := mkt, reg := [],
    bank := [((100, 1), 2000), ((100, 2), 2020), ((1, 1), 7)],
    cw20 := [((50, 100), 5)], nft := [((60, 7), 100)],
    contracts := [(50, ⟨none, 1, true, false⟩), (60, ⟨none, 2, false, false⟩), (9, ⟨none, 0, false, false⟩)] }

theorem ids : IdsInv mkt := by constructor <;> decide
theorem wf : WFInv 1 2 mkt := by constructor <;> decide

end C07Ex

/-! ## handler level -/

section handler
variable {m : Market} {j u : Nat} {env : Env}

/-- the listing half of the four cases: an unclaimed listing that is not running any more is
    deleted by its creator -/
theorem C07_delete_ok (hI : IdsInv m) (hW : WFInv j u m) {k : Nat × Nat} {l : Listing}
    (hm : (k, l) ∈ m.listings) (hc : l.claimant = none)
    (he : ∀ e, l.expiresAt = some e → e ≤ env.nowNs) :
    deleteListing m env l.creator l.id =
      .ok ({ m with listings := aerase k m.listings }, sendTokens l.creator l.forSale) := by
  have hwf : wfListing j u k l = true := hW.lwf _ hm
  have hk := (wfListing_parts hwf).1
  have hl := mem_nodup_alookup hI.lkeys hm
  subst hk
  unfold deleteListing
  rw [hl]
  simp only [ne_eq, not_true_eq_false, if_false, hc, Option.isSome_none, Bool.false_eq_true]
  cases hexp : l.expiresAt with
  | none => simp
  | some e =>
    have := he e hexp
    have hn : ¬ env.nowNs < e := by omega
    simp [hn]

/-- "an unfinalized listing by its creator at once" -/
theorem C07_exit_preparing (hI : IdsInv m) (hW : WFInv j u m) {k : Nat × Nat} {l : Listing}
    (hm : (k, l) ∈ m.listings) (hs : l.status = .preparing) :
    deleteListing m env l.creator l.id =
      .ok ({ m with listings := aerase k m.listings }, sendTokens l.creator l.forSale) := by
  have hwf : wfListing j u k l = true := hW.lwf _ hm
  obtain ⟨_, _, hp, _, _⟩ := wfListing_parts hwf
  obtain ⟨h1, h2, _⟩ := hp hs
  exact C07_delete_ok hI hW hm h2 (fun e he => by rw [h1] at he; cases he)

/-- "a finalized unsold listing by its creator once expired" -/
theorem C07_exit_expired (hI : IdsInv m) (hW : WFInv j u m) {k : Nat × Nat} {l : Listing}
    (hm : (k, l) ∈ m.listings) (hs : l.status = .finalized)
    (he : ∀ e, l.expiresAt = some e → e ≤ env.nowNs) :
    deleteListing m env l.creator l.id =
      .ok ({ m with listings := aerase k m.listings }, sendTokens l.creator l.forSale) := by
  have hwf : wfListing j u k l = true := hW.lwf _ hm
  obtain ⟨_, _, _, hf, _⟩ := wfListing_parts hwf
  exact C07_delete_ok hI hW hm (hf hs).1 he

/-- "a sold listing by its buyer at once": the buyer is the record's `creator` (= claimant) since
    the purchase re-filed it under the buyer -/
theorem C07_exit_sold (hI : IdsInv m) (hW : WFInv j u m) {k : Nat × Nat} {l : Listing}
    (hm : (k, l) ∈ m.listings) (hs : l.status = .closed) :
    l.claimant = some l.creator ∧
    withdrawPurchased m env l.creator l.id =
      .ok ({ m with listings := aerase k m.listings },
           withdrawMsgs env.self l.creator l.forSale l.fee) := by
  have hwf : wfListing j u k l = true := hW.lwf _ hm
  obtain ⟨hk, _, _, _, hc⟩ := wfListing_parts hwf
  have hl := mem_nodup_alookup hI.lkeys hm
  subst hk
  obtain ⟨hf, _, _⟩ := hI.findById_of_alookup hl
  have hcl : l.claimant = some l.creator := hc hs
  refine ⟨hcl, ?_⟩
  unfold withdrawPurchased
  rw [hf]
  simp only [hcl, ne_eq, not_true_eq_false, if_false, hs]

/-- "a bucket by its current owner at once" -/
theorem C07_exit_bucket (hI : IdsInv m) {k : Nat × Nat} {b : Bucket} (hm : (k, b) ∈ m.buckets) :
    withdrawBucket m env b.owner k.2 =
      .ok ({ m with buckets := aerase k m.buckets }, withdrawMsgs env.self b.owner b.funds b.fee) := by
  have hk := hI.bfiled _ hm
  have hl := mem_nodup_alookup hI.bkeys hm
  dsimp only at hk
  have hkk : (b.owner, k.2) = k := by rw [← hk]
  unfold withdrawBucket
  rw [hkk, hl]
  simp

/-- "each record can be cashed out by its entitled party with a single message": the four cases. -/
theorem C07_exit_handler (hI : IdsInv m) (hW : WFInv j u m) (env : Env) :
    (∀ k l, (k, l) ∈ m.listings → l.status = .preparing →
      deleteListing m env l.creator l.id =
        .ok ({ m with listings := aerase k m.listings }, sendTokens l.creator l.forSale)) ∧
    (∀ k l, (k, l) ∈ m.listings → l.status = .finalized →
      (∀ e, l.expiresAt = some e → e ≤ env.nowNs) →
      deleteListing m env l.creator l.id =
        .ok ({ m with listings := aerase k m.listings }, sendTokens l.creator l.forSale)) ∧
    (∀ k l, (k, l) ∈ m.listings → l.status = .closed →
      withdrawPurchased m env l.creator l.id =
        .ok ({ m with listings := aerase k m.listings },
             withdrawMsgs env.self l.creator l.forSale l.fee)) ∧
    (∀ k b, (k, b) ∈ m.buckets →
      withdrawBucket m env b.owner k.2 =
        .ok ({ m with buckets := aerase k m.buckets },
             withdrawMsgs env.self b.owner b.funds b.fee)) :=
  ⟨fun _ _ hm hs => C07_exit_preparing hI hW hm hs,
   fun _ _ hm hs he => C07_exit_expired hI hW hm hs he,
   fun _ _ hm hs => (C07_exit_sold hI hW hm hs).2,
   fun _ _ hm => C07_exit_bucket hI hm⟩

example : IdsInv C07Ex.mkt ∧ WFInv 1 2 C07Ex.mkt ∧
    ((1, 3), C07Ex.lPrep) ∈ C07Ex.mkt.listings ∧ C07Ex.lPrep.status = .preparing ∧
    ((1, 4), C07Ex.lFin) ∈ C07Ex.mkt.listings ∧ C07Ex.lFin.status = .finalized ∧
    (∀ e, C07Ex.lFin.expiresAt = some e → e ≤ C07Ex.w.env.nowNs) ∧
    ((2, 5), C07Ex.lSold) ∈ C07Ex.mkt.listings ∧ C07Ex.lSold.status = .closed ∧
    ((2, 8), C07Ex.bkt) ∈ C07Ex.mkt.buckets :=
  ⟨C07Ex.ids, C07Ex.wf, by decide, rfl, by decide, rfl,
   by intro e he; cases he; decide, by decide, rfl, by decide⟩

/-- the message with which a listing is cashed out: `WithdrawPurchased` for a sold one,
    `DeleteListing` otherwise -/
def Listing.exitMsg (l : Listing) : ExecMsg :=
  match l.status with
  | .closed => .withdrawPurchased l.id
  | _ => .deleteListing l.id

/-- the listing is not a finalized listing that is still running at time `nowNs` -/
def Listing.exitable (nowNs : Nat) (l : Listing) : Prop :=
  l.status = .finalized → ∀ e, l.expiresAt = some e → e ≤ nowNs

instance (nowNs : Nat) (l : Listing) : Decidable (l.exitable nowNs) := by
  unfold Listing.exitable
  cases l.expiresAt with
  | none => exact isTrue (fun _ e he => by cases he)
  | some e0 =>
    by_cases hs : l.status = .finalized
    · by_cases hle : e0 ≤ nowNs
      · exact isTrue (fun _ e he => by cases he; exact hle)
      · exact isFalse (fun h => hle (h hs e0 rfl))
    · exact isTrue (fun h => absurd h hs)

/-- the same through the entry point `execute`, for all three listing cases at once: the creator's
    exit message (no coins attached) is accepted, removes exactly this record and emits exactly
    `withdrawMsgs` of its goods and pending fee (no fee unless sold) -/
theorem C07_exit_execute_listing (hI : IdsInv m) (hW : WFInv j u m) {k : Nat × Nat} {l : Listing}
    (hm : (k, l) ∈ m.listings) (he : l.exitable env.nowNs) :
    execute m env l.creator [] l.exitMsg =
      .ok ({ m with listings := aerase k m.listings },
           withdrawMsgs env.self l.creator l.forSale l.fee) := by
  have hwf : wfListing j u k l = true := hW.lwf _ hm
  obtain ⟨_, _, hp, hf, _⟩ := wfListing_parts hwf
  unfold Listing.exitMsg
  cases hs : l.status with
  | preparing =>
    dsimp only
    rw [execute_nil_deleteListing, C07_exit_preparing hI hW hm hs, (hp hs).2.2, withdrawMsgs_none]
  | finalized =>
    dsimp only
    rw [execute_nil_deleteListing, C07_exit_expired hI hW hm hs (he hs), (hf hs).2, withdrawMsgs_none]
  | closed =>
    dsimp only
    rw [execute_nil_withdrawPurchased, (C07_exit_sold hI hW hm hs).2]

theorem C07_exit_execute_bucket (hI : IdsInv m) {k : Nat × Nat} {b : Bucket} (hm : (k, b) ∈ m.buckets) :
    execute m env b.owner [] (.removeBucket k.2) =
      .ok ({ m with buckets := aerase k m.buckets }, withdrawMsgs env.self b.owner b.funds b.fee) := by
  rw [execute_nil_removeBucket, C07_exit_bucket hI hm]

example : ∀ p ∈ C07Ex.mkt.listings, p.2.exitable C07Ex.w.env.nowNs := by decide
example : C07Ex.lPrep.exitMsg = .deleteListing 3 ∧ C07Ex.lFin.exitMsg = .deleteListing 4 ∧
    C07Ex.lSold.exitMsg = .withdrawPurchased 5 := ⟨rfl, rfl, rfl⟩

end handler

/-! ## chain level -/

/-- "can be cashed out" on the chain side: the bank and the token contracts accept, in order,
    every message of the payout list of a well-formed balance `g` with pending fee `fee`, provided
    the marketplace holds (`Covers`) per denomination the native part *plus the fee* (the fee
    deposit is the last message and its denomination may be one of those just sent), of every
    recorded (honest) CW20 token at least the recorded amount, and owns every recorded NFT (of an
    honest collection).  `m'` is the record table the handler stored (irrelevant to the chain). -/
theorem C07_chain_accepts {w : World} {m' : Market} {to : Nat} {g : GBal} {fee : Option Coin}
    (hwf : wfBal g = true) (hfz : ∀ f, fee = some f → f.amount ≠ 0) (hc : Covers w g fee)
    (hh : HonestAssets w g) :
    ∃ w2, dispatchAll noFault { w with mkt := m' } (withdrawMsgs w.self to g fee) 0 = some w2 :=
  covers_dispatch_ok hwf hfz hc hh

example : wfBal C07Ex.lPrep.forSale = true ∧ Covers C07Ex.w C07Ex.lPrep.forSale C07Ex.lPrep.fee ∧
    HonestAssets C07Ex.w C07Ex.lPrep.forSale := by
  refine ⟨by decide, ⟨fun d => ?_, by decide, by decide⟩, by decide⟩
  simp only [C07Ex.lPrep, newListing, C07Ex.w, feeAmt, coinAmt_cons, coinAmt_nil, lget, alookup]
  by_cases h1 : 1 = d
  · subst h1; decide
  · simp [h1]

/-- a record that holds native coins only has no foreign asset -/
theorem C07_honest_native_only (w : World) {g : GBal} (h1 : g.cw20 = []) (h2 : g.nfts = []) :
    HonestAssets w g := by
  constructor
  · intro c hc; rw [h1] at hc; cases hc
  · intro n hn; rw [h2] at hn; cases hn

example : C07Ex.bkt.funds.cw20 = [] ∧ C07Ex.bkt.funds.nfts = [] := ⟨rfl, rfl⟩

/-! ## world level -/

section world
variable {w : World}

/-- "held = promised" (C01) covers every single listing: its goods and its pending fee are part of
    the total the marketplace holds -/
theorem C07_covers_listing (hW : WFInv w.junoD w.usdcD w.mkt) (hB : Backed w) {k : Nat × Nat}
    {l : Listing} (hm : (k, l) ∈ w.mkt.listings) (hh : HonestAssets w l.forSale) :
    Covers w l.forSale l.fee := by
  have hwf : wfListing w.junoD w.usdcD k l = true := hW.lwf _ hm
  obtain ⟨_, _, _, _, n2, _⟩ := (wfBal_iff _).1 (wfListing_parts hwf).2.1
  refine ⟨fun d => ?_, fun c hc => ?_, fun n hn => ?_⟩
  · rw [hB.1 d]; exact owedNative_ge_listing hm d
  · rw [hB.2.1 c.key (hh.1 c hc), ← coinAmt_of_mem n2 hc]
    exact owedCw20_ge_listing hm c.key
  · exact (hB.2.2.2 n (hh.2 n hn)).1 (mem_recordedNfts_listing hm hn)

/-- … and every single bucket -/
theorem C07_covers_bucket (hW : WFInv w.junoD w.usdcD w.mkt) (hB : Backed w) {k : Nat × Nat}
    {b : Bucket} (hm : (k, b) ∈ w.mkt.buckets) (hh : HonestAssets w b.funds) :
    Covers w b.funds b.fee := by
  have hwf : wfBucket w.junoD w.usdcD k b = true := hW.bwf _ hm
  obtain ⟨_, _, _, _, n2, _⟩ := (wfBal_iff _).1 (wfBucket_parts hwf).2
  refine ⟨fun d => ?_, fun c hc => ?_, fun n hn => ?_⟩
  · rw [hB.1 d]; exact owedNative_ge_bucket hm d
  · rw [hB.2.1 c.key (hh.1 c hc), ← coinAmt_of_mem n2 hc]
    exact owedCw20_ge_bucket hm c.key
  · exact (hB.2.2.2 n (hh.2 n hn)).1 (mem_recordedNfts_bucket hm hn)

/-- **Every listing can be cashed out by its entitled party with a single message.**
    In a world satisfying the run-level invariant `C01Inv` (ids, well-formedness, exactly backed):
    for every stored listing that is not a finalized listing still running (`exitable`: unfinalized,
    or finalized and expired, or sold) and whose assets are honest, the transaction
    `l.creator ▸ l.exitMsg` (`DeleteListing` by the creator, resp. `WithdrawPurchased` by the buyer,
    who is the `creator` of a sold record) succeeds: the handler accepts and every payout message
    is accepted by the chain.  Afterwards exactly this record is gone; the messages are the
    record's goods to that party and its pending fee to the pool; nothing but the three ledgers
    and the record table changed. -/
theorem C07_exit_step_listing (hInv : C01Inv w) {k : Nat × Nat} {l : Listing}
    (hm : (k, l) ∈ w.mkt.listings) (he : l.exitable w.nowNs) (hh : HonestAssets w l.forSale) :
    (step w (.exec l.creator [] l.exitMsg)).2.ok = true ∧
    (step w (.exec l.creator [] l.exitMsg)).2.msgs = withdrawMsgs w.self l.creator l.forSale l.fee ∧
    (step w (.exec l.creator [] l.exitMsg)).1.mkt = { w.mkt with listings := aerase k w.mkt.listings } ∧
    CoreEq w (step w (.exec l.creator [] l.exitMsg)).1 := by
  have hwf : wfListing w.junoD w.usdcD k l = true := hInv.wf.lwf _ hm
  have hx := C07_exit_execute_listing (env := w.env) hInv.ids hInv.wf hm he
  obtain ⟨w2, hd⟩ := C07_chain_accepts (m' := { w.mkt with listings := aerase k w.mkt.listings })
    (to := l.creator) (wfListing_parts hwf).2.1 (fun f hf => (wfListing_fee hwf hf).1)
    (C07_covers_listing hInv.wf hInv.backed hm hh) hh
  have hs := step_exec_nil_of hx hd
  rw [hs]
  have hfr := dispatchAll_frame hd
  exact ⟨rfl, rfl, hfr.2, ⟨hfr.1.self, hfr.1.pool, hfr.1.regAddr, hfr.1.junoD, hfr.1.usdcD,
    hfr.1.nowNs, hfr.1.height, hfr.1.reg, hfr.1.contracts⟩⟩

/-- **Every bucket can be cashed out by its current owner at once.** -/
theorem C07_exit_step_bucket (hInv : C01Inv w) {k : Nat × Nat} {b : Bucket}
    (hm : (k, b) ∈ w.mkt.buckets) (hh : HonestAssets w b.funds) :
    (step w (.exec b.owner [] (.removeBucket k.2))).2.ok = true ∧
    (step w (.exec b.owner [] (.removeBucket k.2))).2.msgs = withdrawMsgs w.self b.owner b.funds b.fee ∧
    (step w (.exec b.owner [] (.removeBucket k.2))).1.mkt = { w.mkt with buckets := aerase k w.mkt.buckets } ∧
    CoreEq w (step w (.exec b.owner [] (.removeBucket k.2))).1 := by
  have hwf : wfBucket w.junoD w.usdcD k b = true := hInv.wf.bwf _ hm
  have hx := C07_exit_execute_bucket (env := w.env) hInv.ids hm
  obtain ⟨w2, hd⟩ := C07_chain_accepts (m' := { w.mkt with buckets := aerase k w.mkt.buckets })
    (to := b.owner) (wfBucket_parts hwf).2 (fun f hf => (wfBucket_fee hwf hf).1)
    (C07_covers_bucket hInv.wf hInv.backed hm hh) hh
  have hs := step_exec_nil_of hx hd
  rw [hs]
  have hfr := dispatchAll_frame hd
  exact ⟨rfl, rfl, hfr.2, ⟨hfr.1.self, hfr.1.pool, hfr.1.regAddr, hfr.1.junoD, hfr.1.usdcD,
    hfr.1.nowNs, hfr.1.height, hfr.1.reg, hfr.1.contracts⟩⟩

/-- The four cases of the property text, at world level. -/
theorem C07_exit_step (hInv : C01Inv w) :
    (∀ k l, (k, l) ∈ w.mkt.listings → HonestAssets w l.forSale → l.status = .preparing →
      (step w (.exec l.creator [] (.deleteListing l.id))).2.ok = true) ∧
    (∀ k l, (k, l) ∈ w.mkt.listings → HonestAssets w l.forSale → l.status = .finalized →
      (∀ e, l.expiresAt = some e → e ≤ w.nowNs) →
      (step w (.exec l.creator [] (.deleteListing l.id))).2.ok = true) ∧
    (∀ k l, (k, l) ∈ w.mkt.listings → HonestAssets w l.forSale → l.status = .closed →
      l.claimant = some l.creator ∧
      (step w (.exec l.creator [] (.withdrawPurchased l.id))).2.ok = true) ∧
    (∀ k b, (k, b) ∈ w.mkt.buckets → HonestAssets w b.funds →
      (step w (.exec b.owner [] (.removeBucket k.2))).2.ok = true) := by
  refine ⟨fun k l hm hh hs => ?_, fun k l hm hh hs he => ?_, fun k l hm hh hs => ?_,
    fun k b hm hh => (C07_exit_step_bucket hInv hm hh).1⟩
  · have := (C07_exit_step_listing hInv hm (fun e => by rw [hs] at e; cases e) hh).1
    simpa only [Listing.exitMsg, hs] using this
  · have := (C07_exit_step_listing hInv hm (fun _ => he) hh).1
    simpa only [Listing.exitMsg, hs] using this
  · have := (C07_exit_step_listing hInv hm (fun e => by rw [hs] at e; cases e) hh).1
    refine ⟨(C07_exit_sold (env := w.env) hInv.ids hInv.wf hm hs).1, ?_⟩
    simpa only [Listing.exitMsg, hs] using this

end world

/-! ### non-vacuity of the world-level theorems

The sample worlds are *reached* ones: prefixes of the sample history of C01 (`AcctEx.ops`), so
`C01Inv` holds by `C01_backed_closed`. -/

namespace C07Ex

/-- after create + CW20 top-up + NFT top-up: one preparing listing of account 1 holding 1000 of
    denom 1, 400 of the honest token 50 and the honest NFT (60, 7) -/
def wPrep : World := run AcctEx.w0 (AcctEx.ops.take 3)
/-- after the purchase and one second: a sold listing (now of account 2, fee 5 of denom 1 pending)
    and the seller's bucket with the proceeds -/
def wSold : World := run AcctEx.w0 (AcctEx.ops.take 8)

theorem w0_inv : C01Inv AcctEx.w0 :=
  ⟨IdsInv.init _ _, WFInv.init _ _ _ _, C01Ex.w0_backed, by decide, AcctEx.w0_payouts 100 (by decide)⟩

theorem wPrep_inv : C01Inv wPrep := C01_backed_closed _ w0_inv (by decide)
theorem wSold_inv : C01Inv wSold := C01_backed_closed _ w0_inv (by decide)

end C07Ex

example : C01Inv C07Ex.wPrep ∧ C07Ex.wPrep.mkt.listings.length = 1 ∧
    ∀ p ∈ C07Ex.wPrep.mkt.listings, p.2.status = .preparing ∧ p.2.exitable C07Ex.wPrep.nowNs ∧
      HonestAssets C07Ex.wPrep p.2.forSale ∧ p.2.forSale.cw20 ≠ [] ∧ p.2.forSale.nfts ≠ [] :=
  ⟨C07Ex.wPrep_inv, by decide, by decide⟩
example : C01Inv C07Ex.wSold ∧ C07Ex.wSold.mkt.listings.length = 1 ∧ C07Ex.wSold.mkt.buckets.length = 1 ∧
    (∀ p ∈ C07Ex.wSold.mkt.listings, p.2.status = .closed ∧ p.2.fee = some ⟨1, 5⟩ ∧
      p.2.exitable C07Ex.wSold.nowNs ∧ HonestAssets C07Ex.wSold p.2.forSale) ∧
    (∀ p ∈ C07Ex.wSold.mkt.buckets, HonestAssets C07Ex.wSold p.2.funds) :=
  ⟨C07Ex.wSold_inv, by decide, by decide, by decide, by decide⟩

/-! ## draining the marketplace -/

/-- the exit transaction of a stored listing / bucket, signed by its entitled party -/
def exitOpL (p : (Nat × Nat) × Listing) : Op := .exec p.2.creator [] p.2.exitMsg
def exitOpB (p : (Nat × Nat) × Bucket) : Op := .exec p.2.owner [] (.removeBucket p.1.2)

/-- "all parties do so": one exit message per record, listings first, then buckets -/
def drainOps (w : World) : List Op := w.mkt.listings.map exitOpL ++ w.mkt.buckets.map exitOpB

/-- every transaction of the history succeeds -/
def runOk (w : World) : List Op → Prop
  | [] => True
  | op :: ops => (step w op).2.ok = true ∧ runOk (step w op).1 ops

/-- the hypotheses of `C07_drain`: the run-level invariant; no finalized listing is still running
    (reachable from any state by letting time pass: `.advance` changes nothing else); every
    record's assets are honest (see the header on finding C18) and no record belongs to the
    marketplace's own address (the marketplace never signs a transaction) -/
structure Drainable (w : World) : Prop where
  inv : C01Inv w
  expired : ∀ p ∈ w.mkt.listings, p.2.exitable w.nowNs
  honestL : ∀ p ∈ w.mkt.listings, HonestAssets w p.2.forSale
  honestB : ∀ p ∈ w.mkt.buckets, HonestAssets w p.2.funds
  ownersL : ∀ p ∈ w.mkt.listings, p.2.creator ≠ w.self
  ownersB : ∀ p ∈ w.mkt.buckets, p.2.owner ≠ w.self

theorem exitMsg_honest (w : World) (s : Nat) (l : Listing) : Op.honest w (.exec s [] l.exitMsg) := by
  unfold Listing.exitMsg
  cases l.status <;> trivial

/-- one exit step keeps the run-level invariant -/
theorem C01Inv_exit {w : World} (hInv : C01Inv w) {s : Nat} {msg : ExecMsg} (hs : s ≠ w.self)
    (hh : Op.honest w (.exec s [] msg)) : C01Inv (step w (.exec s [] msg)).1 :=
  C01_backed_closed [.exec s [] msg] hInv (by
    intro op hop
    simp only [List.mem_singleton] at hop
    subst hop
    exact ⟨hs, hh⟩)

/-- the bucket phase of the drain (no listing left): every bucket exit succeeds, the invariant
    `Drainable` is re-established for the remaining buckets, nothing remains at the end -/
theorem C07_drain_buckets : ∀ (bs : List ((Nat × Nat) × Bucket)) {w : World}, Drainable w →
    w.mkt.listings = [] → w.mkt.buckets = bs →
    runOk w (bs.map exitOpB) ∧ (run w (bs.map exitOpB)).mkt.listings = [] ∧
    (run w (bs.map exitOpB)).mkt.buckets = [] ∧ C01Inv (run w (bs.map exitOpB)) ∧
    CoreEq w (run w (bs.map exitOpB)) := by
  intro bs
  induction bs with
  | nil => intro w hD hl hb; exact ⟨trivial, hl, hb, hD.inv, CoreEq.refl w⟩
  | cons p bs ih =>
    intro w hD hl hb
    obtain ⟨k, b⟩ := p
    have hm : (k, b) ∈ w.mkt.buckets := by rw [hb]; exact List.mem_cons_self
    obtain ⟨hok, _, hmk, hce⟩ := C07_exit_step_bucket hD.inv hm (hD.honestB _ hm)
    have hb' : (step w (exitOpB (k, b))).1.mkt.buckets = bs := by
      show (step w (.exec b.owner [] (.removeBucket k.2))).1.mkt.buckets = bs
      rw [hmk]
      show aerase k w.mkt.buckets = bs
      rw [hb]
      exact aerase_head (by rw [← hb]; exact hD.inv.ids.bkeys)
    have hl' : (step w (exitOpB (k, b))).1.mkt.listings = [] := by
      show (step w (.exec b.owner [] (.removeBucket k.2))).1.mkt.listings = []
      rw [hmk]; exact hl
    have hD' : Drainable (step w (exitOpB (k, b))).1 := by
      refine ⟨C01Inv_exit hD.inv (hD.ownersB _ hm) trivial, ?_, ?_, ?_, ?_, ?_⟩
      · intro p hp; rw [hl'] at hp; cases hp
      · intro p hp; rw [hl'] at hp; cases hp
      · intro p hp
        rw [hb'] at hp
        exact (hD.honestB p (by rw [hb]; exact List.mem_cons_of_mem _ hp)).of_coreEq hce
      · intro p hp; rw [hl'] at hp; cases hp
      · intro p hp
        rw [hb'] at hp
        show p.2.owner ≠ (step w (.exec b.owner [] (.removeBucket k.2))).1.self
        rw [hce.self]
        exact hD.ownersB p (by rw [hb]; exact List.mem_cons_of_mem _ hp)
    obtain ⟨r1, r2, r3, r4, r5⟩ := ih hD' hl' hb'
    exact ⟨⟨hok, r1⟩, r2, r3, r4, hce.trans r5⟩

/-- the listing phase followed by the bucket phase, for a world whose tables are `ls` and `bs`:
    induction on the number of records, using `C07_exit_step_listing` for the head record, the
    preservation of `C01Inv` by that step (`C01_backed_closed`), and the fact that the step erases
    exactly the head key, so the hypotheses for the remaining records persist (time does not
    move: finalized listings stay expired) -/
theorem C07_drain_all : ∀ (ls : List ((Nat × Nat) × Listing)) (bs : List ((Nat × Nat) × Bucket)) {w : World},
    Drainable w → w.mkt.listings = ls → w.mkt.buckets = bs →
    runOk w (ls.map exitOpL ++ bs.map exitOpB) ∧
    (run w (ls.map exitOpL ++ bs.map exitOpB)).mkt.listings = [] ∧
    (run w (ls.map exitOpL ++ bs.map exitOpB)).mkt.buckets = [] ∧
    C01Inv (run w (ls.map exitOpL ++ bs.map exitOpB)) ∧
    CoreEq w (run w (ls.map exitOpL ++ bs.map exitOpB)) := by
  intro ls
  induction ls with
  | nil => intro bs w hD hl hb; exact C07_drain_buckets bs hD hl hb
  | cons p ls ih =>
    intro bs w hD hl hb
    obtain ⟨k, l⟩ := p
    have hm : (k, l) ∈ w.mkt.listings := by rw [hl]; exact List.mem_cons_self
    obtain ⟨hok, _, hmk, hce⟩ := C07_exit_step_listing hD.inv hm (hD.expired _ hm) (hD.honestL _ hm)
    have hl' : (step w (exitOpL (k, l))).1.mkt.listings = ls := by
      show (step w (.exec l.creator [] l.exitMsg)).1.mkt.listings = ls
      rw [hmk]
      show aerase k w.mkt.listings = ls
      rw [hl]
      exact aerase_head (by rw [← hl]; exact hD.inv.ids.lkeys)
    have hb' : (step w (exitOpL (k, l))).1.mkt.buckets = bs := by
      show (step w (.exec l.creator [] l.exitMsg)).1.mkt.buckets = bs
      rw [hmk]; exact hb
    have hD' : Drainable (step w (exitOpL (k, l))).1 := by
      refine ⟨C01Inv_exit hD.inv (hD.ownersL _ hm) (exitMsg_honest _ _ _), ?_, ?_, ?_, ?_, ?_⟩
      · intro p hp
        rw [hl'] at hp
        show p.2.exitable (step w (.exec l.creator [] l.exitMsg)).1.nowNs
        rw [hce.nowNs]
        exact hD.expired p (by rw [hl]; exact List.mem_cons_of_mem _ hp)
      · intro p hp
        rw [hl'] at hp
        exact (hD.honestL p (by rw [hl]; exact List.mem_cons_of_mem _ hp)).of_coreEq hce
      · intro p hp
        rw [hb'] at hp
        exact (hD.honestB p (by rw [hb]; exact hp)).of_coreEq hce
      · intro p hp
        rw [hl'] at hp
        show p.2.creator ≠ (step w (.exec l.creator [] l.exitMsg)).1.self
        rw [hce.self]
        exact hD.ownersL p (by rw [hl]; exact List.mem_cons_of_mem _ hp)
      · intro p hp
        rw [hb'] at hp
        show p.2.owner ≠ (step w (.exec l.creator [] l.exitMsg)).1.self
        rw [hce.self]
        exact hD.ownersB p (by rw [hb]; exact hp)
    obtain ⟨r1, r2, r3, r4, r5⟩ := ih bs hD' hl' hb'
    exact ⟨⟨hok, r1⟩, r2, r3, r4, hce.trans r5⟩

/-- **"After all parties do so the marketplace holds no assets and no records remain."**
    From a state satisfying `Drainable` (run-level invariant; every finalized listing expired;
    honest assets): every transaction of `drainOps w` — one exit message per record, each signed
    by the record's entitled party — succeeds; afterwards both record tables are empty, and the
    marketplace's balance is zero in every native denomination and in every honest CW20 token, and
    it owns no NFT of an honest collection.  Nothing else about the world's configuration
    changed (`CoreEq`: same marketplace / pool addresses, registry, contract table, clock). -/
theorem C07_drain {w : World} (hD : Drainable w) :
    runOk w (drainOps w) ∧
    (run w (drainOps w)).mkt.listings = [] ∧ (run w (drainOps w)).mkt.buckets = [] ∧
    (∀ d, lget (run w (drainOps w)).bank (w.self, d) = 0) ∧
    (∀ t, w.isHonest20 t = true → lget (run w (drainOps w)).cw20 (t, w.self) = 0) ∧
    (∀ c tid, w.isHonest721 c = true → alookup (c, tid) (run w (drainOps w)).nft ≠ some w.self) ∧
    CoreEq w (run w (drainOps w)) := by
  unfold drainOps
  obtain ⟨r1, r2, r3, r4, r5⟩ := C07_drain_all _ _ hD rfl rfl
  refine ⟨r1, r2, r3, fun d => ?_, fun t ht => ?_, fun c tid hc => ?_, r5⟩
  · have := r4.backed.1 d
    rw [r5.self] at this
    rw [this]
    exact owedNative_empty r2 r3 d
  · have := r4.backed.2.1 t (by rw [r5.isHonest20]; exact ht)
    rw [r5.self] at this
    rw [this]
    exact owedCw20_empty r2 r3 t
  · intro hown
    have := (r4.backed.2.2.2 ⟨c, tid⟩ (by rw [r5.isHonest721]; exact hc)).2 (by
      rw [r5.self]; exact hown)
    rw [recordedNfts_empty r2 r3] at this
    cases this

/-- letting time pass changes nothing but the clock: every finalized listing eventually expires,
    so `Drainable`'s expiry clause is reachable from any state -/
theorem C07_advance (w : World) (dNs dH : Nat) :
    (step w (.advance dNs dH)).2.ok = true ∧
    (step w (.advance dNs dH)).1 = { w with nowNs := w.nowNs + dNs, height := w.height + dH } :=
  ⟨rfl, rfl⟩

example : Drainable C07Ex.wSold :=
  ⟨C07Ex.wSold_inv, by decide, by decide, by decide, by decide, by decide⟩
example : drainOps C07Ex.wSold = [.exec 2 [] (.withdrawPurchased 3), .exec 1 [] (.removeBucket 8)] := by
  decide
example : Drainable C07Ex.wPrep :=
  ⟨C07Ex.wPrep_inv, by decide, by decide, by decide, by decide, by decide⟩
example : drainOps C07Ex.wPrep = [.exec 1 [] (.deleteListing 3)] := by decide
/-- … and evaluating the model on the sample agrees: after the drain of `wSold` the marketplace
    (100) holds nothing, the buyer (2) has the goods, the pool (101) the fees -/
example : (run C07Ex.wSold (drainOps C07Ex.wSold)).mkt.listings = [] ∧
    (run C07Ex.wSold (drainOps C07Ex.wSold)).mkt.buckets = [] ∧
    lget (run C07Ex.wSold (drainOps C07Ex.wSold)).bank (100, 1) = 0 ∧
    lget (run C07Ex.wSold (drainOps C07Ex.wSold)).bank (100, 2) = 0 ∧
    lget (run C07Ex.wSold (drainOps C07Ex.wSold)).cw20 (50, 100) = 0 ∧
    lget (run C07Ex.wSold (drainOps C07Ex.wSold)).cw20 (50, 2) = 400 ∧
    alookup (60, 7) (run C07Ex.wSold (drainOps C07Ex.wSold)).nft = some 2 ∧
    lget (run C07Ex.wSold (drainOps C07Ex.wSold)).bank (101, 1) = 5 := by decide

/-! ## every reachable state

The hypotheses of the theorems above — `C01Inv`, honest assets, no record owned by the marketplace's
own address — hold in every state reached from a clean state by a history in which no operation is
signed by the marketplace or registers it as royalty payout address (`Op.avoids`) and no receive
hook is called directly (`Op.unforged`: CW20 / NFT deposits come through the token contracts'
`Send` / `SendNft`; a direct hook call is the forgery of finding C18). -/

/-- no direct call of a receive hook -/
def Op.unforged : Op → Prop
  | .exec _ _ (.receive ..) => False
  | .exec _ _ (.receiveNft ..) => False
  | _ => True

instance (op : Op) : Decidable op.unforged := by
  cases op with
  | exec s f m => cases m <;> simp only [Op.unforged] <;> exact inferInstance
  | _ => simp only [Op.unforged]; exact inferInstance

theorem Op.unforged.honest {op : Op} (h : op.unforged) (w : World) : op.honest w := by
  cases op with
  | exec s f m => cases m <;> first | trivial | exact h.elim
  | _ => trivial

/-- every CW20 entry / NFT of every record names an honest token / collection, and no record
    belongs to the marketplace's own address -/
def CleanRecords (w : World) : Prop :=
  RecInv (fun a => w.isHonest20 a = true) (fun a => w.isHonest721 a = true) w.self w.mkt

theorem CleanRecords.listing {w : World} (h : CleanRecords w) {p : (Nat × Nat) × Listing}
    (hp : p ∈ w.mkt.listings) : HonestAssets w p.2.forSale ∧ p.2.creator ≠ w.self :=
  ⟨⟨(h.lst p hp).1.1, (h.lst p hp).1.2⟩, (h.lst p hp).2⟩

theorem CleanRecords.bucket {w : World} (h : CleanRecords w) {p : (Nat × Nat) × Bucket}
    (hp : p ∈ w.mkt.buckets) : HonestAssets w p.2.funds ∧ p.2.owner ≠ w.self :=
  ⟨⟨(h.bkt p hp).1.1, (h.bkt p hp).1.2⟩, (h.bkt p hp).2⟩

/-- `CleanRecords` is preserved by every transaction that is not signed by the marketplace and is
    no direct hook call -/
theorem C07_clean_step {w : World} {op : Op} (hc : CleanRecords w) (hop : op.avoids w.self)
    (hu : op.unforged) : CleanRecords (step w op).1 := by
  unfold step
  cases ho : op.asExec with
  | some tr =>
    obtain ⟨c, f, msg⟩ := tr
    rcases stepF_cases (fail := noFault) (w := w) ho with ⟨e, h⟩ | ⟨w1, m', msgs, w2, hD, hx, hd, hs⟩
    · rw [h]; exact hc
    · rw [hs]
      obtain ⟨hc1, _⟩ := hD.core
      have hfr := dispatchAll_frame hd
      have hce : CoreEq w w2 := hc1.trans ⟨hfr.1.self, hfr.1.pool, hfr.1.regAddr, hfr.1.junoD,
        hfr.1.usdcD, hfr.1.nowNs, hfr.1.height, hfr.1.reg, hfr.1.contracts⟩
      have hm : w2.mkt = m' := hfr.2
      have key : RecInv (fun a => w.isHonest20 a = true) (fun a => w.isHonest721 a = true) w.self m' := by
        refine execute_recInv hx hc ?_
        cases op with
        | exec s fu m =>
          simp only [Op.asExec, Option.some.injEq, Prod.mk.injEq] at ho
          obtain ⟨rfl, rfl, rfl⟩ := ho
          cases m <;> first | exact hop | exact hu.elim
        | send20 t s a i =>
          simp only [Op.asExec, Option.some.injEq, Prod.mk.injEq] at ho
          obtain ⟨rfl, rfl, rfl⟩ := ho
          exact ⟨hD.1, fun e => hop (by injection e)⟩
        | send721 co s t i =>
          simp only [Op.asExec, Option.some.injEq, Prod.mk.injEq] at ho
          obtain ⟨rfl, rfl, rfl⟩ := ho
          exact ⟨hD.1, fun e => hop (by injection e)⟩
        | royalty s m => simp [Op.asExec] at ho
        | setAdmin s c n => simp [Op.asExec] at ho
        | advance a b => simp [Op.asExec] at ho
      show RecInv _ _ w2.self w2.mkt
      rw [hm, hce.self]
      exact key.imp (fun a h => by rw [hce.isHonest20]; exact h) (fun a h => by rw [hce.isHonest721]; exact h)
  | none =>
    obtain ⟨_, _, _, h4, hs⟩ := stepF_nonmarket (fail := noFault) (w := w) ho
    show RecInv _ _ (stepF noFault w op).1.self (stepF noFault w op).1.mkt
    rw [h4, hs.self]
    exact hc.imp (fun a h => by rw [hs.honest20]; exact h) (fun a h => by rw [hs.honest721]; exact h)

/-- the state invariant of this section -/
structure Reach (w : World) : Prop where
  inv : C01Inv w
  clean : CleanRecords w

theorem C07_reach_step {w : World} {op : Op} (h : Reach w) (hop : op.avoids w.self) (hu : op.unforged) :
    Reach (step w op).1 :=
  ⟨C01_backed_closed [op] h.inv (by
    intro op' hop'
    simp only [List.mem_singleton] at hop'
    subst hop'
    exact ⟨hop, hu.honest w⟩), C07_clean_step h.clean hop hu⟩

theorem C07_reach_run (ops : List Op) : ∀ {w : World}, Reach w →
    (∀ op ∈ ops, op.avoids w.self ∧ op.unforged) → Reach (run w ops) := by
  induction ops with
  | nil => intro w h _; exact h
  | cons op ops ih =>
    intro w h hops
    obtain ⟨h1, h2⟩ := hops op List.mem_cons_self
    refine ih (C07_reach_step h h1 h2) ?_
    intro op' hop'
    have hst := stepF_static noFault w op
    obtain ⟨h3, h4⟩ := hops op' (List.mem_cons_of_mem _ hop')
    refine ⟨?_, h4⟩
    show op'.avoids (stepF noFault w op).1.self
    rw [hst.self]; exact h3

/-- a reached state in which no finalized listing is still running can be drained -/
theorem C07_reach_drainable {w : World} (h : Reach w) (hexp : ∀ p ∈ w.mkt.listings, p.2.exitable w.nowNs) :
    Drainable w :=
  ⟨h.inv, hexp, fun _ hp => (h.clean.listing hp).1, fun _ hp => (h.clean.bucket hp).1,
   fun _ hp => (h.clean.listing hp).2, fun _ hp => (h.clean.bucket hp).2⟩

/-- **"From every reachable state each record can be cashed out by its entitled party with a
    single message … After all parties do so the marketplace holds no assets and no records
    remain."**  Let `w` be reached from a state satisfying `Reach` (for instance a freshly
    instantiated marketplace that holds nothing) by any history whose operations avoid the
    marketplace as signer / payout address and contain no direct hook call.  Then in `w`:
    every listing that is not finalized-and-still-running is cashed out by `creator ▸ exitMsg`
    (creator at once if unfinalized, creator once expired if finalized and unsold, buyer at once if
    sold); every bucket by its owner at once; and after waiting long enough (`dNs` nanoseconds, for
    some `dNs` — any bound of the expiry times will do) the state is `Drainable`, so that
    `C07_drain` applies: all exits succeed, no record remains, the marketplace holds nothing. -/
theorem C07_reachable {w0 : World} (h0 : Reach w0) (ops : List Op)
    (hops : ∀ op ∈ ops, op.avoids w0.self ∧ op.unforged) :
    (∀ k l, (k, l) ∈ (run w0 ops).mkt.listings → l.exitable (run w0 ops).nowNs →
      (step (run w0 ops) (.exec l.creator [] l.exitMsg)).2.ok = true) ∧
    (∀ k b, (k, b) ∈ (run w0 ops).mkt.buckets →
      (step (run w0 ops) (.exec b.owner [] (.removeBucket k.2))).2.ok = true) ∧
    ∃ dNs, Drainable (step (run w0 ops) (.advance dNs 0)).1 := by
  have h := C07_reach_run ops h0 hops
  refine ⟨fun k l hm he => (C07_exit_step_listing h.inv hm he (h.clean.listing hm).1).1,
    fun k b hm => (C07_exit_step_bucket h.inv hm (h.clean.bucket hm).1).1, ?_⟩
  refine ⟨((run w0 ops).mkt.listings.map fun q => q.2.expiresAt.getD 0).sum, ?_⟩
  have hr : Reach (step (run w0 ops) (.advance
      ((run w0 ops).mkt.listings.map fun q => q.2.expiresAt.getD 0).sum 0)).1 :=
    ⟨⟨h.inv.ids, h.inv.wf, h.inv.backed, h.inv.pool, h.inv.payouts⟩, ⟨h.clean.lst, h.clean.bkt⟩⟩
  refine C07_reach_drainable hr ?_
  intro p hp _ e he
  have hp' : p ∈ (run w0 ops).mkt.listings := hp
  have := expiry_le_sum hp' he
  show e ≤ (run w0 ops).nowNs + _
  omega

example : Reach AcctEx.w0 :=
  ⟨C07Ex.w0_inv, ⟨fun _ hp => (by cases hp), fun _ hp => (by cases hp)⟩⟩
example : ∀ op ∈ AcctEx.ops, op.avoids AcctEx.w0.self ∧ op.unforged := by decide
example : C07Ex.wSold = run AcctEx.w0 (AcctEx.ops.take 8) := rfl

#print axioms C07_delete_ok
#print axioms C07_exit_preparing
#print axioms C07_exit_expired
#print axioms C07_exit_sold
#print axioms C07_exit_bucket
#print axioms C07_exit_handler
#print axioms C07_exit_execute_listing
#print axioms C07_exit_execute_bucket
#print axioms C07_chain_accepts
#print axioms C07_honest_native_only
#print axioms C07_covers_listing
#print axioms C07_covers_bucket
#print axioms C07_exit_step_listing
#print axioms C07_exit_step_bucket
#print axioms C07_exit_step
#print axioms exitMsg_honest
#print axioms C01Inv_exit
#print axioms C07_drain_buckets
#print axioms C07_drain_all
#print axioms C07_drain
#print axioms C07_advance
#print axioms Op.unforged.honest
#print axioms CleanRecords.listing
#print axioms CleanRecords.bucket
#print axioms C07_clean_step
#print axioms C07_reach_step
#print axioms C07_reach_run
#print axioms C07_reach_drainable
#print axioms C07_reachable
#print axioms C07Ex.ids
#print axioms C07Ex.wf
#print axioms C07Ex.w0_inv
#print axioms C07Ex.wPrep_inv
#print axioms C07Ex.wSold_inv

end Fuzion
