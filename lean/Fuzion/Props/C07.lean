/-
  Fuzion.Props.C07 — "Nothing gets stuck: every escrowed asset is always recoverable".

  Property text:  From every reachable state each record can be cashed out by its entitled party
  with a single message: an unfinalized listing by its creator at once, a finalized unsold listing
  by its creator once expired, a sold listing by its buyer at once, a bucket by its current owner
  at once.  After all parties do so the marketplace holds no assets and no records remain.

  Structure
  * handler level (`C07_exit_preparing`, `C07_exit_expired`, `C07_exit_sold`, `C07_exit_bucket`,
    collected in `C07_exit_handler`; through `execute`: `C07_exit_execute_listing/_bucket`): under
    the storage invariants `IdsInv` (C09) and `WFInv` (C12) the exit message of the entitled party
    is accepted, removes exactly that record and emits exactly the record's payout messages.
  * chain level (`C07_chain_accepts`, proved as `withdraw_dispatch_ok` in
    Fuzion/Lemmas/ExitLemmas.lean): the bank and the token contracts accept every message of a
    payout list if the marketplace holds what the list names.
  * world level (`C07_exit_step_listing`, `C07_exit_step_bucket`, `C07_exit_step`): under the
    run-level invariant `C01Inv` (ids, well-formedness, *exactly backed*, C01) the whole
    transaction succeeds — "held = promised" (C01) is what makes the payout affordable, and the
    pending fee is part of "promised", which is why the closing fee deposit is covered even when
    its denomination coincides with one of the goods just sent.
  * `C07_drain`: one exit message per record, listings first, then buckets: every transaction of
    that history succeeds, afterwards no record remains, and (C01 again) the marketplace holds no
    native coin, no honest CW20 token and no NFT of an honest collection.

  Side condition (finding C18, known): a record may contain an "asset" of a hostile contract,
  recorded through a forged `Receive` / `ReceiveNft` call.  Such a contract can reject the transfer
  and thereby block the exit of *that* record — that is exactly the known defect, not a gap of
  this proof.  The world-level theorems therefore assume `HonestAssets w g` for the record's
  balance `g` (Fuzion/Lemmas/ExitLemmas.lean):
      `HonestAssets w g := (∀ c ∈ g.cw20, w.isHonest20 c.key = true) ∧
                            (∀ n ∈ g.nfts, w.isHonest721 n.coll = true)`
  i.e. every CW20 entry is a token of kind 1 and every NFT a collection of kind 2 of the chain
  model.  Records holding only native coins satisfy it trivially (`C07_honest_native_only`).
-/
import Fuzion.Lemmas.ExitLemmas
import Fuzion.Props.C01Closed
namespace Fuzion

/-! ## sample data for the non-vacuity examples -/

namespace C07Ex

/-- a preparing listing of account 1 (id 3): 1000 of denom 1 and 5 of the honest token 50 -/
def lPrep : Listing := newListing 1 3 none ⟨[⟨1, 1000⟩], [⟨50, 5⟩], []⟩ ⟨[⟨2, 2000⟩], [], []⟩
/-- a finalized listing of account 1 (id 4) that expired at 700·10⁹ -/
def lFin : Listing :=
  { lPrep with id := 4, finalizedAt := some (100 * NS), expiresAt := some (700 * NS), status := .finalized,
               forSale := ⟨[⟨2, 10⟩], [], [⟨60, 7⟩]⟩ }
/-- a sold listing now owned by account 2 (id 5), with a pending fee in denom 1 -/
def lSold : Listing :=
  { lFin with creator := 2, id := 5, status := .closed, claimant := some 2, fee := some ⟨1, 5⟩,
              forSale := ⟨[⟨1, 995⟩], [], []⟩ }
/-- a bucket of account 2 (id 8) with a pending fee in denom 2 -/
def bkt : Bucket := ⟨2, ⟨[⟨2, 2000⟩], [], []⟩, some ⟨2, 10⟩⟩

def mkt : Market :=
  { listings := [((1, 3), lPrep), ((1, 4), lFin), ((2, 5), lSold)], buckets := [((2, 8), bkt)],
    listingUsed := [5, 4, 3, 0], bucketUsed := [8, 0], feeKind := .juno, feeSince := 0, registry := some 9 }

/-- marketplace 100, pool 101; token 50 honest CW20, collection 60 honest CW721; now = 800·10⁹ -/
def w : World :=
  { self := 100, pool := 101, regAddr := 9, junoD := 1, usdcD := 2, nowNs := 800 * NS, height := 10,
    mkt := mkt, reg := [],
    bank := [((100, 1), 2000), ((100, 2), 2020), ((1, 1), 7)],
    cw20 := [((50, 100), 5)], nft := [((60, 7), 100)],
    contracts := [(50, ⟨none, 1, true, false⟩), (60, ⟨none, 2, false, false⟩), (9, ⟨none, 0, false, false⟩)] }

theorem ids : IdsInv mkt := by constructor <;> decide
theorem wf : WFInv 1 2 mkt := by constructor <;> decide

end C07Ex

/-! ## handler level -/

section handler
variable {m : Market} {j u : Nat} {env : Env}

/-- the listing half of the four cases: an unclaimed listing that is not running any more is
    deleted by its creator -/
theorem C07_delete_ok (hI : IdsInv m) (hW : WFInv j u m) {k : Nat × Nat} {l : Listing}
    (hm : (k, l) ∈ m.listings) (hc : l.claimant = none)
    (he : ∀ e, l.expiresAt = some e → e ≤ env.nowNs) :
    deleteListing m env l.creator l.id =
      .ok ({ m with listings := aerase k m.listings }, sendTokens l.creator l.forSale) := by
  have hk := (wfListing_parts (hW.lwf _ hm)).1
  have hl := mem_nodup_alookup hI.lkeys hm
  dsimp only at hk
  subst hk
  unfold deleteListing
  rw [hl]
  simp only [ne_eq, not_true_eq_false, if_false, hc, Option.isSome_none, Bool.false_eq_true]
  cases hexp : l.expiresAt with
  | none => simp
  | some e =>
    have := he e hexp
    have hn : ¬ env.nowNs < e := by omega
    simp [hn]

/-- "an unfinalized listing by its creator at once" -/
theorem C07_exit_preparing (hI : IdsInv m) (hW : WFInv j u m) {k : Nat × Nat} {l : Listing}
    (hm : (k, l) ∈ m.listings) (hs : l.status = .preparing) :
    deleteListing m env l.creator l.id =
      .ok ({ m with listings := aerase k m.listings }, sendTokens l.creator l.forSale) := by
  obtain ⟨_, _, hp, _, _⟩ := wfListing_parts (hW.lwf _ hm)
  obtain ⟨h1, h2, _⟩ := hp hs
  exact C07_delete_ok hI hW hm h2 (fun e he => by rw [h1] at he; cases he)

/-- "a finalized unsold listing by its creator once expired" -/
theorem C07_exit_expired (hI : IdsInv m) (hW : WFInv j u m) {k : Nat × Nat} {l : Listing}
    (hm : (k, l) ∈ m.listings) (hs : l.status = .finalized)
    (he : ∀ e, l.expiresAt = some e → e ≤ env.nowNs) :
    deleteListing m env l.creator l.id =
      .ok ({ m with listings := aerase k m.listings }, sendTokens l.creator l.forSale) := by
  obtain ⟨_, _, _, hf, _⟩ := wfListing_parts (hW.lwf _ hm)
  exact C07_delete_ok hI hW hm (hf hs).1 he

/-- "a sold listing by its buyer at once": the buyer is the record's `creator` (= claimant) since
    the purchase re-filed it under the buyer -/
theorem C07_exit_sold (hI : IdsInv m) (hW : WFInv j u m) {k : Nat × Nat} {l : Listing}
    (hm : (k, l) ∈ m.listings) (hs : l.status = .closed) :
    l.claimant = some l.creator ∧
    withdrawPurchased m env l.creator l.id =
      .ok ({ m with listings := aerase k m.listings },
           withdrawMsgs env.self l.creator l.forSale l.fee) := by
  obtain ⟨hk, _, _, _, hc⟩ := wfListing_parts (hW.lwf _ hm)
  have hl := mem_nodup_alookup hI.lkeys hm
  dsimp only at hk
  subst hk
  obtain ⟨hf, _, _⟩ := hI.findById_of_alookup hl
  refine ⟨hc hs, ?_⟩
  unfold withdrawPurchased
  rw [hf]
  simp only [hc hs, ne_eq, not_true_eq_false, if_false, hs]

/-- "a bucket by its current owner at once" -/
theorem C07_exit_bucket (hI : IdsInv m) {k : Nat × Nat} {b : Bucket} (hm : (k, b) ∈ m.buckets) :
    withdrawBucket m env b.owner k.2 =
      .ok ({ m with buckets := aerase k m.buckets }, withdrawMsgs env.self b.owner b.funds b.fee) := by
  have hk := hI.bfiled _ hm
  have hl := mem_nodup_alookup hI.bkeys hm
  dsimp only at hk
  have hkk : (b.owner, k.2) = k := by rw [← hk]
  unfold withdrawBucket
  rw [hkk, hl]
  simp

/-- "each record can be cashed out by its entitled party with a single message": the four cases. -/
theorem C07_exit_handler (hI : IdsInv m) (hW : WFInv j u m) (env : Env) :
    (∀ k l, (k, l) ∈ m.listings → l.status = .preparing →
      deleteListing m env l.creator l.id =
        .ok ({ m with listings := aerase k m.listings }, sendTokens l.creator l.forSale)) ∧
    (∀ k l, (k, l) ∈ m.listings → l.status = .finalized →
      (∀ e, l.expiresAt = some e → e ≤ env.nowNs) →
      deleteListing m env l.creator l.id =
        .ok ({ m with listings := aerase k m.listings }, sendTokens l.creator l.forSale)) ∧
    (∀ k l, (k, l) ∈ m.listings → l.status = .closed →
      withdrawPurchased m env l.creator l.id =
        .ok ({ m with listings := aerase k m.listings },
             withdrawMsgs env.self l.creator l.forSale l.fee)) ∧
    (∀ k b, (k, b) ∈ m.buckets →
      withdrawBucket m env b.owner k.2 =
        .ok ({ m with buckets := aerase k m.buckets },
             withdrawMsgs env.self b.owner b.funds b.fee)) :=
  ⟨fun _ _ hm hs => C07_exit_preparing hI hW hm hs,
   fun _ _ hm hs he => C07_exit_expired hI hW hm hs he,
   fun _ _ hm hs => (C07_exit_sold hI hW hm hs).2,
   fun _ _ hm => C07_exit_bucket hI hm⟩

example : IdsInv C07Ex.mkt ∧ WFInv 1 2 C07Ex.mkt ∧
    ((1, 3), C07Ex.lPrep) ∈ C07Ex.mkt.listings ∧ C07Ex.lPrep.status = .preparing ∧
    ((1, 4), C07Ex.lFin) ∈ C07Ex.mkt.listings ∧ C07Ex.lFin.status = .finalized ∧
    (∀ e, C07Ex.lFin.expiresAt = some e → e ≤ C07Ex.w.env.nowNs) ∧
    ((2, 5), C07Ex.lSold) ∈ C07Ex.mkt.listings ∧ C07Ex.lSold.status = .closed ∧
    ((2, 8), C07Ex.bkt) ∈ C07Ex.mkt.buckets :=
  ⟨C07Ex.ids, C07Ex.wf, by decide, rfl, by decide, rfl,
   by intro e he; cases he; decide, by decide, rfl, by decide⟩

/-- the message with which a listing is cashed out: `WithdrawPurchased` for a sold one,
    `DeleteListing` otherwise -/
def Listing.exitMsg (l : Listing) : ExecMsg :=
  match l.status with
  | .closed => .withdrawPurchased l.id
  | _ => .deleteListing l.id

/-- the listing is not a finalized listing that is still running at time `nowNs` -/
def Listing.exitable (nowNs : Nat) (l : Listing) : Prop :=
  l.status = .finalized → ∀ e, l.expiresAt = some e → e ≤ nowNs

instance (nowNs : Nat) (l : Listing) : Decidable (l.exitable nowNs) := by
  unfold Listing.exitable
  cases l.expiresAt with
  | none => exact isTrue (fun _ e he => by cases he)
  | some e0 =>
    by_cases hs : l.status = .finalized
    · by_cases hle : e0 ≤ nowNs
      · exact isTrue (fun _ e he => by cases he; exact hle)
      · exact isFalse (fun h => hle (h hs e0 rfl))
    · exact isTrue (fun h => absurd h hs)

/-- the same through the entry point `execute`, for all three listing cases at once: the creator's
    exit message (no coins attached) is accepted, removes exactly this record and emits exactly
    `withdrawMsgs` of its goods and pending fee (no fee unless sold) -/
theorem C07_exit_execute_listing (hI : IdsInv m) (hW : WFInv j u m) {k : Nat × Nat} {l : Listing}
    (hm : (k, l) ∈ m.listings) (he : l.exitable env.nowNs) :
    execute m env l.creator [] l.exitMsg =
      .ok ({ m with listings := aerase k m.listings },
           withdrawMsgs env.self l.creator l.forSale l.fee) := by
  obtain ⟨_, _, hp, hf, _⟩ := wfListing_parts (hW.lwf _ hm)
  unfold Listing.exitMsg
  cases hs : l.status with
  | preparing =>
    dsimp only
    rw [execute_nil_deleteListing, C07_exit_preparing hI hW hm hs, (hp hs).2.2, withdrawMsgs_none]
  | finalized =>
    dsimp only
    rw [execute_nil_deleteListing, C07_exit_expired hI hW hm hs (he hs), (hf hs).2, withdrawMsgs_none]
  | closed =>
    dsimp only
    rw [execute_nil_withdrawPurchased, (C07_exit_sold hI hW hm hs).2]

theorem C07_exit_execute_bucket (hI : IdsInv m) {k : Nat × Nat} {b : Bucket} (hm : (k, b) ∈ m.buckets) :
    execute m env b.owner [] (.removeBucket k.2) =
      .ok ({ m with buckets := aerase k m.buckets }, withdrawMsgs env.self b.owner b.funds b.fee) := by
  rw [execute_nil_removeBucket, C07_exit_bucket hI hm]

example : ∀ p ∈ C07Ex.mkt.listings, p.2.exitable C07Ex.w.env.nowNs := by decide
example : C07Ex.lPrep.exitMsg = .deleteListing 3 ∧ C07Ex.lFin.exitMsg = .deleteListing 4 ∧
    C07Ex.lSold.exitMsg = .withdrawPurchased 5 := ⟨rfl, rfl, rfl⟩

end handler

end Fuzion
