/-
  Fuzion.Props.C10Closed — ghost-ledger conservation over every history, with the
  invariant-preservation hypotheses discharged by C09 and C12.
-/
import Fuzion.Props.C10
import Fuzion.Props.C09
import Fuzion.Props.C12
namespace Fuzion

/-- "Every fee charged reaches the community pool exactly once": along every history, per
    denomination, `pool + pending = initial pool + initial pending + Σ charged`. -/
theorem C10_conservation_closed (ops : List Op) {w : World} (h : C10Inv w)
    (hops : ∀ op ∈ ops, op.avoids w.pool) (d : Nat) :
    lget (run w ops).bank (w.pool, d) + pendingFee (run w ops).mkt d =
      lget w.bank (w.pool, d) + pendingFee w.mkt d + chargedRun w ops d :=
  C10_conservation C09_inv_execute (fun _ hw h => C12_inv_execute hw h) ops h hops d

#print axioms C10_conservation_closed
end Fuzion
