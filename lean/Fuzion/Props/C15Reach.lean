/-
  Fuzion.Props.C15Reach — C15 "Purchases, deposits and payouts are all-or-nothing when a transfer
  fails", lifted from one transaction (Props/C15.lean) to HISTORIES WITH FAULTS.

  A faulty history is a list of pairs `(fail, op)`: the operation `op` is run with the dispatch of
  the `k`-th message it emits forced to fail whenever `fail k` (`stepF fail`, Model/Chain.lean).
  `runF w0 fops` is the state such a history reaches, `survivors w0 fops` the operations of it whose
  faulty transaction was accepted.  Proved, for EVERY fault schedule and every start `w0`:

  (a) `C15_all_or_nothing_reach` — the next faulty transaction from a reached state either returns
      that state unchanged (exactly when `fail` hits a position of the message list the fault-free
      transaction emits) or is the fault-free transaction, world and outcome;
  (b) `C15_runF_is_run_of_survivors_reach` — `runF w0 fops = run w0 (survivors w0 fops)`: a history
      with faults is indistinguishable from the fault-free history of the operations that went
      through; the survivors are a sub-list of the operations and each of them is accepted in the
      fault-free replay too (`C15_survivors_sublist_reach`, `C15_survivors_accepted_reach`);
  (c) hence the reach theorems of the other properties hold under faults: `IdsInv`, `WFInv`, `Backed`,
      "sold at most once", and a fault-free retry after a fault-induced abort has the full effect;
  (d) `C15_exit_after_fault_reach` — a payout (`deleteListing` / `withdrawPurchased` / `removeBucket`)
      aborted by a fault leaves the record in place and the entitled party's retry succeeds.

  What is NOT proved here (as in Props/C15.lean): that the real chain runtime rolls back like `stepF`;
  that is validated by the fault-injection runs of the harness against the model.
-/
import Fuzion.Lemmas.FaultReachLemmas
import Fuzion.Props.Summary
import Fuzion.Props.OracleSoundFault
namespace Fuzion

/-! ## histories with faults -/

/-- a history with faults: every operation comes with the fault predicate of its transaction -/
abbrev FOp := (Nat → Bool) × Op

/-- the state reached by a history with faults (fold of `stepF`, world component) -/
def runF (w : World) : List FOp → World
  | [] => w
  | (fail, op) :: r => runF (stepF fail w op).1 r

/-- the operations of a history with faults whose (faulty) transaction was accepted, in order -/
def survivors (w : World) : List FOp → List Op
  | [] => []
  | (fail, op) :: r =>
    if (stepF fail w op).2.ok then op :: survivors (stepF fail w op).1 r
    else survivors (stepF fail w op).1 r

/-- successful purchases of listing `lid` along a history with faults (cf. `buysOf`) -/
def buysOfF (lid : Nat) (w : World) : List FOp → Nat
  | [] => 0
  | (fail, op) :: r =>
    (if isBuyOf lid op && (stepF fail w op).2.ok then 1 else 0) + buysOfF lid (stepF fail w op).1 r

/-- a fault-free history, seen as a history with faults -/
def noFaults (ops : List Op) : List FOp := ops.map fun op => (noFault, op)

theorem runF_append (w : World) (a b : List FOp) : runF w (a ++ b) = runF (runF w a) b := by
  induction a generalizing w with
  | nil => rfl
  | cons p a ih => obtain ⟨fail, op⟩ := p; exact ih _

theorem survivors_append (w : World) (a b : List FOp) :
    survivors w (a ++ b) = survivors w a ++ survivors (runF w a) b := by
  induction a generalizing w with
  | nil => rfl
  | cons p a ih =>
    obtain ⟨fail, op⟩ := p
    simp only [List.cons_append, survivors, runF]
    split
    · rw [ih, List.cons_append]
    · exact ih _

/-- without faults `runF` is `run` -/
theorem runF_noFaults (w : World) (ops : List Op) : runF w (noFaults ops) = run w ops := by
  induction ops generalizing w with
  | nil => rfl
  | cons op ops ih => exact ih _

/-! ## one faulty transaction versus the fault-free one (any world) -/

/-- an accepted faulty transaction IS the fault-free transaction -/
theorem stepF_ok_eq_step {fail : Nat → Bool} {w : World} {op : Op}
    (h : (stepF fail w op).2.ok = true) : stepF fail w op = step w op := by
  refine stepF_fault_miss fun k hk => ?_
  cases hf : fail k with
  | false => rfl
  | true => rw [stepF_fault_hit hk hf] at h; cases h

/-- the complete case analysis of one faulty transaction, in any world -/
theorem stepF_all_or_nothing (fail : Nat → Bool) (w : World) (op : Op) :
    ((∃ k, k < (step w op).2.msgs.length ∧ fail k = true) →
      stepF fail w op = (w, .fail .dispatch)) ∧
    ((∀ k, k < (step w op).2.msgs.length → fail k = false) → stepF fail w op = step w op) ∧
    (stepF fail w op = (w, .fail .dispatch) ∨ stepF fail w op = step w op) := by
  refine ⟨fun ⟨k, hk, hf⟩ => stepF_fault_hit hk hf, stepF_fault_miss, ?_⟩
  cases h : (stepF fail w op).2.ok with
  | true => exact .inr (stepF_ok_eq_step h)
  | false =>
    by_cases hex : ∃ k, k < (step w op).2.msgs.length ∧ fail k = true
    · obtain ⟨k, hk, hf⟩ := hex
      exact .inl (stepF_fault_hit hk hf)
    · refine .inr (stepF_fault_miss fun k hk => ?_)
      cases hf : fail k with
      | false => rfl
      | true => exact absurd ⟨k, hk, hf⟩ hex

/-! ## (a) all or nothing, from every state reached under faults -/

/-- **C15 (a)** "Purchases, deposits and payouts are all-or-nothing when a transfer fails".
    Let `𝐰 = runF w0 fops` be the state reached by ANY history with faults from ANY `w0`, and
    `(fail, op)` any further faulty transaction.  Then
    * NOTHING: if `fail` hits a position `k` of the message list the fault-free transaction
      `step 𝐰 op` emits, `stepF fail 𝐰 op = (𝐰, failure)` — the world is the very same value
      (listings, buckets, id logs, fee state, registry, bank, CW20 and NFT ledgers, clock);
    * ALL: if `fail` spares all these positions, `stepF fail 𝐰 op = step 𝐰 op` — the fault-free
      result, world and outcome (which is itself a refusal with `𝐰` unchanged when the
      transaction fails for a reason of its own: `C15_abort`);
    * and there is no third case. -/
theorem C15_all_or_nothing_reach (w0 : World) (fops : List FOp) (fail : Nat → Bool) (op : Op) :
    ((∃ k, k < (step (runF w0 fops) op).2.msgs.length ∧ fail k = true) →
      stepF fail (runF w0 fops) op = (runF w0 fops, .fail .dispatch)) ∧
    ((∀ k, k < (step (runF w0 fops) op).2.msgs.length → fail k = false) →
      stepF fail (runF w0 fops) op = step (runF w0 fops) op) ∧
    (stepF fail (runF w0 fops) op = (runF w0 fops, .fail .dispatch) ∨
      stepF fail (runF w0 fops) op = step (runF w0 fops) op) :=
  stepF_all_or_nothing fail (runF w0 fops) op

/-- … as an equivalence: the faulty transaction is accepted exactly when the fault-free one is and
    no message it emits is hit; and an accepted one is the fault-free one. -/
theorem C15_accepted_iff_reach (w0 : World) (fops : List FOp) (fail : Nat → Bool) (op : Op) :
    ((stepF fail (runF w0 fops) op).2.ok = true ↔
      (step (runF w0 fops) op).2.ok = true ∧
      ∀ k, k < (step (runF w0 fops) op).2.msgs.length → fail k = false) ∧
    ((stepF fail (runF w0 fops) op).2.ok = true →
      stepF fail (runF w0 fops) op = step (runF w0 fops) op) := by
  refine ⟨⟨fun h => ?_, fun ⟨h1, h2⟩ => ?_⟩, stepF_ok_eq_step⟩
  · refine ⟨by rw [← stepF_ok_eq_step h]; exact h, fun k hk => ?_⟩
    cases hf : fail k with
    | false => rfl
    | true => rw [stepF_fault_hit hk hf] at h; cases h
  · rw [stepF_fault_miss h2]; exact h1

/-- … field by field: after a faulty transaction that was not accepted, every component of the
    world is what it was. -/
theorem C15_nothing_fields_reach (w0 : World) (fops : List FOp) (fail : Nat → Bool) (op : Op)
    (h : (stepF fail (runF w0 fops) op).2.ok = false) :
    (stepF fail (runF w0 fops) op).1.mkt.listings = (runF w0 fops).mkt.listings ∧
    (stepF fail (runF w0 fops) op).1.mkt.buckets = (runF w0 fops).mkt.buckets ∧
    (stepF fail (runF w0 fops) op).1.mkt.listingUsed = (runF w0 fops).mkt.listingUsed ∧
    (stepF fail (runF w0 fops) op).1.mkt.bucketUsed = (runF w0 fops).mkt.bucketUsed ∧
    (stepF fail (runF w0 fops) op).1.mkt.feeKind = (runF w0 fops).mkt.feeKind ∧
    (stepF fail (runF w0 fops) op).1.mkt.feeSince = (runF w0 fops).mkt.feeSince ∧
    (stepF fail (runF w0 fops) op).1.reg = (runF w0 fops).reg ∧
    (stepF fail (runF w0 fops) op).1.bank = (runF w0 fops).bank ∧
    (stepF fail (runF w0 fops) op).1.cw20 = (runF w0 fops).cw20 ∧
    (stepF fail (runF w0 fops) op).1.nft = (runF w0 fops).nft ∧
    runF w0 (fops ++ [(fail, op)]) = runF w0 fops := by
  have e := C15_abort fail (runF w0 fops) op h
  refine ⟨by rw [e], by rw [e], by rw [e], by rw [e], by rw [e], by rw [e], by rw [e], by rw [e],
    by rw [e], by rw [e], ?_⟩
  rw [runF_append]; exact e

/-! ## (b) a history with faults is the fault-free history of its survivors -/

/-- **C15 (b)**: the state reached by a history with faults is the state reached by the fault-free
    history of the operations that went through.  Hence every theorem about `run w0 ops` (for all
    `ops`) is a theorem about states reached under faults. -/
theorem C15_runF_is_run_of_survivors_reach (w0 : World) (fops : List FOp) :
    runF w0 fops = run w0 (survivors w0 fops) := by
  induction fops generalizing w0 with
  | nil => rfl
  | cons p r ih =>
    obtain ⟨fail, op⟩ := p
    simp only [runF, survivors]
    cases h : (stepF fail w0 op).2.ok with
    | true =>
      simp only [if_true, run]
      rw [← stepF_ok_eq_step h]
      exact ih _
    | false =>
      simp only [Bool.false_eq_true, if_false]
      rw [ih, C15_abort fail w0 op h]

/-- the survivors are a sub-list (order kept) of the operations of the history -/
theorem C15_survivors_sublist_reach (w0 : World) (fops : List FOp) :
    (survivors w0 fops).Sublist (fops.map (·.2)) := by
  induction fops generalizing w0 with
  | nil => exact List.Sublist.slnil
  | cons p r ih =>
    obtain ⟨fail, op⟩ := p
    simp only [survivors, List.map_cons]
    split
    · exact (ih _).cons_cons _
    · exact (ih _).cons _

/-- so whatever holds of every operation of the history holds of every survivor -/
theorem survivors_forall {P : Op → Prop} {w0 : World} {fops : List FOp}
    (h : ∀ p ∈ fops, P p.2) : ∀ op ∈ survivors w0 fops, P op := by
  intro op hop
  have hm := (C15_survivors_sublist_reach w0 fops).subset hop
  obtain ⟨p, hp, rfl⟩ := List.mem_map.1 hm
  exact h p hp

/-- every step of the fault-free replay is accepted: `okRun w ops` -/
def okRun (w : World) : List Op → Prop
  | [] => True
  | op :: ops => (step w op).2.ok = true ∧ okRun (step w op).1 ops

/-- … and the replay is faithful: each survivor is accepted again, in the same state -/
theorem C15_survivors_accepted_reach (w0 : World) (fops : List FOp) :
    okRun w0 (survivors w0 fops) := by
  induction fops generalizing w0 with
  | nil => trivial
  | cons p r ih =>
    obtain ⟨fail, op⟩ := p
    simp only [survivors]
    cases h : (stepF fail w0 op).2.ok with
    | true =>
      simp only [if_true]
      refine ⟨by rw [← stepF_ok_eq_step h]; exact h, ?_⟩
      rw [← stepF_ok_eq_step h]
      exact ih _
    | false =>
      simp only [Bool.false_eq_true, if_false]
      rw [C15_abort fail w0 op h]
      exact ih _

/-- without faults nothing is lost: the survivors of a fault-free history are its accepted steps,
    and a history whose steps are all accepted survives entirely -/
theorem survivors_noFaults_of_okRun (w : World) (ops : List Op) (h : okRun w ops) :
    survivors w (noFaults ops) = ops := by
  induction ops generalizing w with
  | nil => rfl
  | cons op ops ih =>
    obtain ⟨h1, h2⟩ := h
    have h1' : (stepF noFault w op).2.ok = true := h1
    simp only [noFaults, List.map_cons, survivors, h1', if_true]
    exact congrArg _ (ih _ h2)

/-- purchases counted along the faulty history = purchases counted along the replay -/
theorem buysOfF_eq_buysOf (lid : Nat) (w0 : World) (fops : List FOp) :
    buysOfF lid w0 fops = buysOf lid w0 (survivors w0 fops) := by
  induction fops generalizing w0 with
  | nil => rfl
  | cons p r ih =>
    obtain ⟨fail, op⟩ := p
    simp only [buysOfF, survivors]
    cases h : (stepF fail w0 op).2.ok with
    | true =>
      simp only [if_true, buysOf]
      rw [← stepF_ok_eq_step h, h, ih]
    | false =>
      simp only [Bool.false_eq_true, if_false, Bool.and_false, Nat.zero_add]
      rw [ih, C15_abort fail w0 op h]

/-! ## (c) the reach theorems of the other properties hold under faults -/

/-- **C09 under faults**: at most one listing / bucket per id, id logs complete — in every state
    reached from instantiation by any history with faults. -/
theorem C15_ids_under_faults_reach {w0 : World} {t : Nat} {r : Option Nat}
    (h0 : w0.mkt = instantiate t r) (fops : List FOp) : IdsInv (runF w0 fops).mkt := by
  rw [C15_runF_is_run_of_survivors_reach]
  exact closed_ids h0 _

/-- **C12 under faults**: every stored record is well-formed in every state reached from
    instantiation by any history with faults. -/
theorem C15_wf_under_faults_reach {w0 : World} {t : Nat} {r : Option Nat}
    (h0 : w0.mkt = instantiate t r) (fops : List FOp) :
    WFInv (runF w0 fops).junoD (runF w0 fops).usdcD (runF w0 fops).mkt := by
  rw [C15_runF_is_run_of_survivors_reach]
  exact closed_wf h0 _

/-- **C01 under faults**: the marketplace's balances equal what its records promise, and it owns
    exactly the recorded NFTs, in every state reached from a deployment by any history with faults
    whose operations are not signed by the marketplace and contain no hook call forged by an honest
    token contract.  (The conditions are about the operations of the history — accepted or not;
    the survivors inherit them as a sub-list.) -/
theorem C15_backed_under_faults_reach {w0 : World} (hd : Deployed w0) (fops : List FOp)
    (hops : ∀ p ∈ fops, p.2.avoids w0.self ∧ p.2.honest w0) : Backed (runF w0 fops) := by
  rw [C15_runF_is_run_of_survivors_reach]
  exact C01_from_deployment hd _ (survivors_forall (P := fun op => op.avoids w0.self ∧ op.honest w0) hops)

/-- **C03 under faults**: along any history with faults from instantiation every listing id is
    bought successfully at most once — aborted purchases do not count, and do not re-open it. -/
theorem C15_sold_once_under_faults_reach {w0 : World} {t : Nat} {r : Option Nat}
    (h0 : w0.mkt = instantiate t r) (lid : Nat) (fops : List FOp) : buysOfF lid w0 fops ≤ 1 := by
  rw [buysOfF_eq_buysOf]
  exact C03_sold_once_reach h0 lid _

/-- … and once a purchase of `lid` went through under faults, every later purchase of it is
    refused, whatever faulty history lies in between and whether or not a fault is injected. -/
theorem C15_second_buy_refused_under_faults_reach {w0 : World} {t : Nat} {r : Option Nat}
    (h0 : w0.mkt = instantiate t r) (fops : List FOp) {fail : Nat → Bool} {s : Nat}
    {f : List Coin} {lid bid : Nat}
    (hok : (stepF fail (runF w0 fops) (.exec s f (.buy lid bid))).2.ok = true)
    (fops' : List FOp) (fail' : Nat → Bool) (s' : Nat) (f' : List Coin) (bid' : Nat) :
    (stepF fail' (runF (stepF fail (runF w0 fops) (.exec s f (.buy lid bid))).1 fops')
      (.exec s' f' (.buy lid bid'))).2.ok = false := by
  have e := stepF_ok_eq_step hok
  rw [e] at hok ⊢
  rw [C15_runF_is_run_of_survivors_reach w0 fops] at hok ⊢
  rw [C15_runF_is_run_of_survivors_reach _ fops']
  have h2 := C03_second_buy_refused_reach h0 _ hok
    (survivors (step (run w0 (survivors w0 fops)) (.exec s f (.buy lid bid))).1 fops') s' f' bid'
  cases h : (stepF fail' (run (step (run w0 (survivors w0 fops)) (Op.exec s f (ExecMsg.buy lid bid))).1
      (survivors (step (run w0 (survivors w0 fops)) (Op.exec s f (ExecMsg.buy lid bid))).1 fops'))
      (Op.exec s' f' (ExecMsg.buy lid bid'))).2.ok with
  | false => rfl
  | true => rw [stepF_ok_eq_step h, h2] at h; cases h

/-- **retry**: if a transaction from a state reached under faults was aborted ONLY because of the
    injected fault (the fault-free transaction is accepted), then a fault did hit one of its
    messages, the state is unchanged, and retrying the same operation without fault in that state
    is accepted and has the full fault-free effect; as histories: `… (fail, op), (noFault, op)`
    reaches the state of `… op`. -/
theorem C15_retry_succeeds_reach (w0 : World) (fops : List FOp) (fail : Nat → Bool) (op : Op)
    (hfail : (stepF fail (runF w0 fops) op).2.ok = false)
    (hgood : (step (runF w0 fops) op).2.ok = true) :
    (∃ k, k < (step (runF w0 fops) op).2.msgs.length ∧ fail k = true) ∧
    stepF fail (runF w0 fops) op = (runF w0 fops, .fail .dispatch) ∧
    stepF noFault (stepF fail (runF w0 fops) op).1 op = step (runF w0 fops) op ∧
    (stepF noFault (stepF fail (runF w0 fops) op).1 op).2.ok = true ∧
    runF w0 (fops ++ [(fail, op), (noFault, op)]) = (step (runF w0 fops) op).1 ∧
    survivors w0 (fops ++ [(fail, op), (noFault, op)]) = survivors w0 fops ++ [op] := by
  have hex : ∃ k, k < (step (runF w0 fops) op).2.msgs.length ∧ fail k = true := by
    refine Classical.byContradiction fun hne => ?_
    have hm : stepF fail (runF w0 fops) op = step (runF w0 fops) op :=
      stepF_fault_miss fun k hk => by
        cases hf : fail k with
        | false => rfl
        | true => exact absurd ⟨k, hk, hf⟩ hne
    rw [hm, hgood] at hfail; cases hfail
  obtain ⟨k, hk, hf⟩ := hex
  have e := stepF_fault_hit hk hf
  have e1 : (stepF fail (runF w0 fops) op).1 = runF w0 fops := by rw [e]
  refine ⟨⟨k, hk, hf⟩, e, by rw [e1]; rfl, by rw [e1]; exact hgood, ?_, ?_⟩
  · rw [runF_append]
    simp only [runF]
    rw [e1]; rfl
  · have hgood' : (stepF noFault (runF w0 fops) op).2.ok = true := hgood
    rw [survivors_append]
    simp only [survivors, hfail, e1, hgood', Bool.false_eq_true, if_false, if_true]

/-! ## (d) a payout aborted by a fault can be retried -/

/-- **C07 under faults**: in every state `𝐰` reached from a deployment by a history with faults
    (operations not signed by the marketplace, no forged hook calls), for every stored listing
    that is not a still-running finalized one, and for every stored bucket: if the payout message
    of the entitled party (`deleteListing` by the creator of an unsold listing, `withdrawPurchased`
    by the buyer of a sold one — `Listing.exitMsg`; `removeBucket` by the owner) is aborted under
    fault injection, then it was the fault (a message of the payout was hit), the state is `𝐰`
    itself, so the record is still stored with identical contents, and the same party's fault-free
    retry is accepted. -/
theorem C15_exit_after_fault_reach {w0 : World} (hd : Deployed w0) (fops : List FOp)
    (hops : ∀ p ∈ fops, p.2.avoids w0.self ∧ p.2.unforged) (fail : Nat → Bool) :
    (∀ k l, (k, l) ∈ (runF w0 fops).mkt.listings → l.exitable (runF w0 fops).nowNs →
      (stepF fail (runF w0 fops) (.exec l.creator [] l.exitMsg)).2.ok = false →
      (∃ i, i < (step (runF w0 fops) (.exec l.creator [] l.exitMsg)).2.msgs.length ∧ fail i = true) ∧
      (stepF fail (runF w0 fops) (.exec l.creator [] l.exitMsg)).1 = runF w0 fops ∧
      (k, l) ∈ (stepF fail (runF w0 fops) (.exec l.creator [] l.exitMsg)).1.mkt.listings ∧
      (step (stepF fail (runF w0 fops) (.exec l.creator [] l.exitMsg)).1
        (.exec l.creator [] l.exitMsg)).2.ok = true) ∧
    (∀ k b, (k, b) ∈ (runF w0 fops).mkt.buckets →
      (stepF fail (runF w0 fops) (.exec b.owner [] (.removeBucket k.2))).2.ok = false →
      (∃ i, i < (step (runF w0 fops) (.exec b.owner [] (.removeBucket k.2))).2.msgs.length ∧
        fail i = true) ∧
      (stepF fail (runF w0 fops) (.exec b.owner [] (.removeBucket k.2))).1 = runF w0 fops ∧
      (k, b) ∈ (stepF fail (runF w0 fops) (.exec b.owner [] (.removeBucket k.2))).1.mkt.buckets ∧
      (step (stepF fail (runF w0 fops) (.exec b.owner [] (.removeBucket k.2))).1
        (.exec b.owner [] (.removeBucket k.2))).2.ok = true) := by
  have hx := C07_from_deployment hd (survivors w0 fops)
    (survivors_forall (P := fun op => op.avoids w0.self ∧ op.unforged) hops)
  rw [← C15_runF_is_run_of_survivors_reach] at hx
  obtain ⟨hl, hb, _⟩ := hx
  constructor
  · intro k l hm he hf
    have hgood := hl k l hm he
    obtain ⟨h1, h2, _⟩ := C15_retry_succeeds_reach w0 fops fail _ hf hgood
    have e1 : (stepF fail (runF w0 fops) (.exec l.creator [] l.exitMsg)).1 = runF w0 fops := by
      rw [h2]
    exact ⟨h1, e1, by rw [e1]; exact hm, by rw [e1]; exact hgood⟩
  · intro k b hm hf
    have hgood := hb k b hm
    obtain ⟨h1, h2, _⟩ := C15_retry_succeeds_reach w0 fops fail _ hf hgood
    have e1 : (stepF fail (runF w0 fops) (.exec b.owner [] (.removeBucket k.2))).1 = runF w0 fops := by
      rw [h2]
    exact ⟨h1, e1, by rw [e1]; exact hm, by rw [e1]; exact hgood⟩

/-! ## non-vacuity

From the concrete deployment `deployedEx` the history of Props/Summary.lean (account 1 lists 10 of
denom 0 for 10 of denom 2, finalizes, fills bucket 5 with the ask, buys its own listing, a week
passes, account 77 switches the fee denomination) is run with EVERY dispatch failing (`always`):
these six transactions emit no message, so they all go through.  Then account 1's withdrawal of the
purchased listing 4 (one message: 10 of denom 0 to account 1) is aborted twice — once with every
dispatch failing, once with exactly message 0 failing — and so is its removal of bucket 5.
`fopsRetry` adds the fault-free retry of the withdrawal. -/

namespace C15REx
def always : Nat → Bool := fun _ => true
def failAt (k : Nat) : Nat → Bool := fun i => i == k
def opWd : Op := .exec 1 [] (.withdrawPurchased 4)
def opRm : Op := .exec 1 [] (.removeBucket 5)
def fops : List FOp :=
  (SummaryEx.ops.take 6).map (fun op => (always, op)) ++
    [(always, opWd), (failAt 0, opWd), (always, opRm)]
def fopsRetry : List FOp := fops ++ [(failAt 1, opWd)]
/-- the state reached under these faults -/
def w : World := runF deployedEx fops
end C15REx

-- the faulty history: six survivors, three aborted payouts; listing 4 (sold) and bucket 5 are
-- still stored, the marketplace still holds the 10 + 10 coins
example : survivors deployedEx C15REx.fops = SummaryEx.ops.take 6 ∧
    C15REx.w.mkt.listings.length = 1 ∧ C15REx.w.mkt.buckets.length = 1 ∧
    lget C15REx.w.bank (9, 0) = 10 ∧ lget C15REx.w.bank (9, 2) = 10 ∧
    lget C15REx.w.bank (1, 0) = 0 := by decide

-- (a) "nothing": the withdrawal emits one message and `always` / `failAt 0` hit it …
example : (step C15REx.w C15REx.opWd).2.ok = true ∧
    (step C15REx.w C15REx.opWd).2.msgs = [.bankSend 1 [⟨0, 10⟩]] ∧
    (∃ k, k < (step C15REx.w C15REx.opWd).2.msgs.length ∧ C15REx.failAt 0 k = true) ∧
    (stepF (C15REx.failAt 0) C15REx.w C15REx.opWd).2.ok = false :=
  ⟨by decide, by decide, ⟨0, by decide, rfl⟩, by decide⟩
-- … "all": `failAt 1` spares it, and the faulty step is accepted
example : (∀ k, k < (step C15REx.w C15REx.opWd).2.msgs.length → C15REx.failAt 1 k = false) ∧
    (stepF (C15REx.failAt 1) C15REx.w C15REx.opWd).2.ok = true := by decide
-- a transaction that is refused for a reason of its own (a stranger's withdrawal) emits nothing:
-- the second case applies, with the same refusal
example : (step C15REx.w (.exec 2 [] (.withdrawPurchased 4))).2.ok = false ∧
    (∀ k, k < (step C15REx.w (.exec 2 [] (.withdrawPurchased 4))).2.msgs.length →
      C15REx.always k = false) := by decide

-- (b) after the retry (with a fault that misses) the survivors are the whole history of
-- Props/Summary.lean and the goods have reached the buyer
example : survivors deployedEx C15REx.fopsRetry = SummaryEx.ops ∧
    (runF deployedEx C15REx.fopsRetry).mkt.listings = [] ∧
    lget (runF deployedEx C15REx.fopsRetry).bank (1, 0) = 10 := by decide
example : okRun deployedEx (survivors deployedEx C15REx.fopsRetry) :=
  C15_survivors_accepted_reach _ _

-- (c) hypotheses: instantiation, deployment, and the conditions on the operations
example : deployedEx.mkt = instantiate 1700000000123456789 (some 7) := rfl
example : Deployed deployedEx := C02WEx.deployedEx_ok
example : ∀ p ∈ C15REx.fopsRetry, p.2.avoids deployedEx.self ∧ p.2.honest deployedEx := by decide
example : ∀ p ∈ C15REx.fopsRetry, p.2.avoids deployedEx.self ∧ p.2.unforged := by decide
example : Backed (runF deployedEx C15REx.fopsRetry) :=
  C15_backed_under_faults_reach C02WEx.deployedEx_ok _ (by decide)
-- listing 4 is bought exactly once although purchases and payouts were attempted under faults;
-- a second purchase attempt is refused
example : buysOfF 4 deployedEx C15REx.fopsRetry = 1 := by decide
example : (stepF C15REx.always (runF deployedEx ((SummaryEx.ops.take 3).map fun op => (C15REx.always, op)))
    (.exec 1 [] (.buy 4 5))).2.ok = true := by decide
-- retry: hypotheses of `C15_retry_succeeds_reach`
example : (stepF C15REx.always (runF deployedEx C15REx.fops) C15REx.opWd).2.ok = false ∧
    (step (runF deployedEx C15REx.fops) C15REx.opWd).2.ok = true := by decide

-- (d) hypotheses: the sold listing 4 is stored, exitable, its exit message is account 1's
-- withdrawal and is aborted under `always`; bucket 5 likewise
example : (C15REx.w.mkt.listings.all fun p => decide (p.2.exitable C15REx.w.nowNs) &&
      decide (Op.exec p.2.creator [] p.2.exitMsg = C15REx.opWd) &&
      !(stepF C15REx.always C15REx.w (.exec p.2.creator [] p.2.exitMsg)).2.ok) = true ∧
    C15REx.w.mkt.listings ≠ [] := by decide
example : (C15REx.w.mkt.buckets.all fun p =>
      decide (Op.exec p.2.owner [] (.removeBucket p.1.2) = C15REx.opRm) &&
      !(stepF C15REx.always C15REx.w (.exec p.2.owner [] (.removeBucket p.1.2))).2.ok) = true ∧
    C15REx.w.mkt.buckets ≠ [] := by decide

/-! ## axioms -/

#print axioms C15_all_or_nothing_reach
#print axioms C15_accepted_iff_reach
#print axioms C15_nothing_fields_reach
#print axioms C15_runF_is_run_of_survivors_reach
#print axioms C15_survivors_sublist_reach
#print axioms C15_survivors_accepted_reach
#print axioms C15_ids_under_faults_reach
#print axioms C15_wf_under_faults_reach
#print axioms C15_backed_under_faults_reach
#print axioms C15_sold_once_under_faults_reach
#print axioms C15_second_buy_refused_under_faults_reach
#print axioms C15_retry_succeeds_reach
#print axioms C15_exit_after_fault_reach

end Fuzion
