/-
  Fuzion.Props.C15Submsg — C15, the reply discipline made explicit (see Model/Submsg.lean).
  Under the CosmWasm sub-message semantics a failure can be swallowed only by a sub-message sent
  with `ReplyOn::Error` / `Always` whose `reply` returns Ok.  The marketplace sends every message
  with `ReplyOn::Never` (implementation side: oracle `oSub` on every recorded response) and its
  `reply` rejects every id but 1 (`C15_reply_only_1`, compared on `REPLY` lines) — so:
-/
import Fuzion.Model.Submsg
import Fuzion.Model.Chain
namespace Fuzion
open Fuzion.Submsg

/-- all sub-messages are plain (`add_message`) -/
def AllNever {μ : Type} (xs : List (SubM μ)) : Prop := ∀ x ∈ xs, x.replyOn = .never

/-- with plain messages the discipline is exactly "run in order, abort on the first failure":
    the `reply` entry point is never consulted -/
theorem C15_never_is_plain {σ μ : Type} (sem : Sem σ μ) :
    ∀ (xs : List (SubM μ)) (s : σ), AllNever xs →
      dispatch sem s xs = (xs.map (·.msg)).foldlM (fun st m => sem.run st m) s := by
  intro xs
  induction xs with
  | nil => intro s _; rfl
  | cons x xs ih =>
    intro s h
    have hx : x.replyOn = .never := h x List.mem_cons_self
    have hxs : AllNever xs := fun y hy => h y (List.mem_cons_of_mem _ hy)
    simp only [dispatch, dispatchSub, hx, List.map_cons, List.foldlM_cons]
    cases hr : sem.run s x.msg with
    | none => simp [Option.bind]
    | some s' => simp [Option.bind, ih s' hxs]

/-- **no failure is swallowed**: if any message of a plain response fails when its turn comes, the
    whole dispatch fails (whatever `reply` would answer) -/
theorem C15_never_means_atomic {σ μ : Type} (sem : Sem σ μ) :
    ∀ (pre : List (SubM μ)) (x : SubM μ) (post : List (SubM μ)) (s s' : σ),
      AllNever (pre ++ x :: post) → dispatch sem s pre = some s' → sem.run s' x.msg = none →
      dispatch sem s (pre ++ x :: post) = none := by
  intro pre
  induction pre with
  | nil =>
    intro x post s s' h hp hr
    simp only [dispatch, Option.some.injEq] at hp
    subst hp
    have hx : x.replyOn = .never := h x (by simp)
    simp [dispatch, dispatchSub, hr, hx]
  | cons y ys ih =>
    intro x post s s' h hp hr
    simp only [List.cons_append, dispatch] at hp ⊢
    cases hy : dispatchSub sem s y with
    | none => simp
    | some s1 =>
      simp only [hy] at hp ⊢
      exact ih x post s1 s' (fun z hz => h z (List.mem_cons_of_mem _ hz)) hp hr

/-- conversely, ONE `reply_on_error` sub-message whose reply answers Ok is enough to swallow a
    failure: the dispatch then succeeds although the message failed (this is the shape of change the
    oracle `oSub` and the fault injection are there to catch) -/
theorem C15_error_reply_swallows :
    let sem : Sem Nat Bool := ⟨fun s ok => if ok then some (s + 1) else none, fun s _ _ => some s⟩
    dispatch sem 0 [⟨false, 2, .error⟩, ⟨true, 0, .never⟩] = some 1 ∧
    dispatch sem 0 [⟨false, 0, .never⟩, ⟨true, 0, .never⟩] = none := by
  decide

/-- the model's own dispatcher (Model/Chain.lean) is this discipline instantiated with plain
    messages: `dispatchAll noFault` = in-order `dispatch1`, aborting on the first failure -/
theorem C15_dispatchAll_is_plain (w : World) (msgs : List OutMsg) :
    dispatchAll noFault w msgs 0 =
      dispatch ⟨dispatch1, fun s _ _ => some s⟩ w (msgs.map fun m => ⟨m, 0, .never⟩) := by
  suffices h : ∀ (msgs : List OutMsg) (w : World) (i : Nat),
      dispatchAll noFault w msgs i =
        dispatch ⟨dispatch1, fun s _ _ => some s⟩ w (msgs.map fun m => ⟨m, 0, .never⟩) from h msgs w 0
  intro msgs
  induction msgs with
  | nil => intro w i; rfl
  | cons m ms ih =>
    intro w i
    simp only [dispatchAll, noFault, Bool.false_eq_true, ↓reduceIte, List.map_cons, dispatch, dispatchSub]
    cases hd : dispatch1 w m with
    | none => rfl
    | some w' => simp only [ih w' (i + 1)]

/-- non-vacuity of `C15_never_means_atomic`: a two-message plain response whose second message fails -/
example : let sem : Sem Nat Bool := ⟨fun s ok => if ok then some (s + 1) else none, fun s _ _ => some s⟩
    AllNever ([⟨true, 0, .never⟩] ++ (⟨false, 0, .never⟩ : SubM Bool) :: []) ∧
    dispatch sem 0 [⟨true, 0, .never⟩] = some 1 ∧ sem.run 1 false = none := by
  refine ⟨?_, by decide, by decide⟩
  intro x hx
  simp only [List.cons_append, List.nil_append, List.mem_cons, List.not_mem_nil, or_false] at hx
  rcases hx with rfl | rfl <;> rfl

#print axioms C15_never_is_plain
#print axioms C15_never_means_atomic
#print axioms C15_error_reply_swallows
#print axioms C15_dispatchAll_is_plain
end Fuzion
