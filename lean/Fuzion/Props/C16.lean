/-
  Fuzion.Props.C16 — "Queries report exactly what is stored and what is purchasable".

  Property text (C16): Paging through an owner's listings or buckets from page 1 upward returns
  each of that owner's records exactly once, and every page number from 1 to 255 is answered
  (with an empty page beyond the data) rather than failing.  The market and whitelist queries
  return precisely the listings that are finalized, unsold and unexpired (for the whitelist
  query, those reserved for that buyer), so a listed item is never already unpurchasable.  The
  fee query reports the denomination the next purchase will be charged in and a next-change
  time before which a cycle attempt is refused and after which it is accepted.

  The theorems are about the model of query.rs (`Fuzion.Model.Query`, the code after the repairs
  of D2, D3, D4); that the Rust agrees with the model on every query is what the correspondence
  check establishes.  Core library only.
-/
import Fuzion.Lemmas.QueryLemmas
namespace Fuzion

/-! ### 1. paging -/

/-- "Paging … from page 1 upward returns each … record exactly once": concatenating pages
    `1..k` enumerates the first `20·k` records, each once, in order. -/
theorem C16_pages_cover {α : Type} (l : List α) (k : Nat) :
    ((List.range k).flatMap fun i => pageOf l (i + 1)) = l.take (20 * k) :=
  pages_flatMap l k

/-- "… returns each of that owner's records exactly once": once `20·k` reaches the length, the
    pages `1..k` are the whole list. -/
theorem C16_pages_all {α : Type} (l : List α) (k : Nat) (h : l.length ≤ 20 * k) :
    ((List.range k).flatMap fun i => pageOf l (i + 1)) = l := by
  rw [C16_pages_cover, List.take_of_length_le h]

/-- non-vacuity of `C16_pages_all`: 45 records, three pages (and the pages, computed) -/
example : (List.range 45).length ≤ 20 * 3 ∧
    ((List.range 3).flatMap fun i => pageOf (List.range 45) (i + 1)) = List.range 45 := by decide

/-- "(with an empty page beyond the data)": a page that starts at or after the end is empty. -/
theorem C16_page_beyond {α : Type} (l : List α) (p : Nat) (h : (p - 1) * 20 ≥ l.length) :
    pageOf l p = [] :=
  pageOf_beyond l p h

/-- non-vacuity of `C16_page_beyond`: page 4 of 45 records -/
example : (4 - 1) * 20 ≥ (List.range 45).length ∧ pageOf (List.range 45) 4 = [] := by decide

/-- The reach of a `u8` page number, stated explicitly: pages `1..255` cover a list of at most
    5100 records completely; the model (like the Rust: `page_num: u8`) cannot address record
    number 5101 and later. -/
theorem C16_pages_u8 {α : Type} (l : List α) (h : l.length ≤ 5100) :
    ((List.range 255).flatMap fun i => pageOf l (i + 1)) = l :=
  C16_pages_all l 255 (by omega)

/-- non-vacuity of `C16_pages_u8` -/
example : (List.range 45).length ≤ 5100 := by decide

/-- page 0 is answered like page 1 (`saturating_sub`, repair of D2) -/
theorem C16_page_zero {α : Type} (l : List α) : pageOf l 0 = pageOf l 1 := rfl

/-! ### 2. every page number is answered -/

/-- "every page number from 1 to 255 is answered … rather than failing": for a valid owner
    address both per-owner queries succeed for every page number (the specification has no
    failing page; that the Rust does not abort is what the correspondence check establishes),
    and they return the corresponding page of the owner's records. -/
theorem C16_owner_total (m : Market) (o p : Nat) :
    (∃ r, qBuckets m (.valid o) p = some r ∧ r = pageOf (ownerBuckets m o) p) ∧
    (∃ r, qListingsByOwner m (.valid o) p = some r ∧
      r = (pageOf (ownerListings m o) p).map (·.2)) :=
  ⟨⟨_, rfl, rfl⟩, ⟨_, rfl, rfl⟩⟩

/-- an address that does not validate is the only way the per-owner queries fail -/
theorem C16_owner_invalid (m : Market) (p : Nat) :
    qBuckets m .invalid p = none ∧ qListingsByOwner m .invalid p = none :=
  ⟨rfl, rfl⟩

/-- "(with an empty page beyond the data)", for the queries themselves. -/
theorem C16_owner_beyond (m : Market) (o p : Nat) :
    ((p - 1) * 20 ≥ (ownerBuckets m o).length → qBuckets m (.valid o) p = some []) ∧
    ((p - 1) * 20 ≥ (ownerListings m o).length → qListingsByOwner m (.valid o) p = some []) := by
  constructor
  · intro h
    simp [qBuckets, rawValid, pageOf_beyond _ _ h]
  · intro h
    simp [qListingsByOwner, rawValid, pageOf_beyond _ _ h]

/-- non-vacuity of `C16_owner_beyond`: owner 1 has two buckets and two listings, page 2 is beyond -/
example : (2 - 1) * 20 ≥ (ownerBuckets C16Ex.mkt 1).length ∧
    (2 - 1) * 20 ≥ (ownerListings C16Ex.mkt 1).length := by
  rw [C16Ex.ownerBuckets_mkt, C16Ex.ownerListings_mkt]; decide

/-! ### 3. the owner's records, exactly -/

/-- "returns each of that owner's records exactly once" (buckets): the list that is paged is a
    permutation of the owner's stored `(id, bucket)` pairs, ascending by id (strictly: ids are
    distinct), without duplicates, and contains no record of anyone else. -/
theorem C16_owner_exact_buckets (m : Market) (o : Nat) (h : (akeys m.buckets).Nodup) :
    (ownerBuckets m o).Perm
        ((m.buckets.filter (fun p => decide (p.1.1 = o))).map (fun p => (p.1.2, p.2))) ∧
    (ownerBuckets m o).Pairwise (fun a b => a.1 ≤ b.1) ∧
    (ownerBuckets m o).Pairwise (fun a b => a.1 < b.1) ∧
    (ownerBuckets m o).Nodup ∧
    ∀ x, x ∈ ownerBuckets m o ↔ ((o, x.1), x.2) ∈ m.buckets :=
  ⟨ownerRecs_perm _ _, ownerRecs_sorted _ _, ownerRecs_strict _ _ h, ownerRecs_nodup _ _ h,
    ownerRecs_mem _ _⟩

/-- "returns each of that owner's records exactly once" (listings). -/
theorem C16_owner_exact_listings (m : Market) (o : Nat) (h : (akeys m.listings).Nodup) :
    (ownerListings m o).Perm
        ((m.listings.filter (fun p => decide (p.1.1 = o))).map (fun p => (p.1.2, p.2))) ∧
    (ownerListings m o).Pairwise (fun a b => a.1 ≤ b.1) ∧
    (ownerListings m o).Pairwise (fun a b => a.1 < b.1) ∧
    (ownerListings m o).Nodup ∧
    ∀ x, x ∈ ownerListings m o ↔ ((o, x.1), x.2) ∈ m.listings :=
  ⟨ownerRecs_perm _ _, ownerRecs_sorted _ _, ownerRecs_strict _ _ h, ownerRecs_nodup _ _ h,
    ownerRecs_mem _ _⟩

/-- non-vacuity of `C16_owner_exact_*`: the example market has distinct keys; owner 1's buckets
    come out ascending although stored descending -/
example : (akeys C16Ex.mkt.buckets).Nodup ∧ (akeys C16Ex.mkt.listings).Nodup ∧
    C16Ex.mkt.buckets = [((1, 5), C16Ex.b1), ((1, 2), C16Ex.b1), ((2, 4), C16Ex.b2)] ∧
    ownerBuckets C16Ex.mkt 1 = [(2, C16Ex.b1), (5, C16Ex.b1)] :=
  ⟨by decide, by decide, rfl, C16Ex.ownerBuckets_mkt⟩

/-- The first sentence of C16 for `get_buckets`, end to end: if ids are unique per key, asking
    pages `1..k` (with `20·k` at least the number of the owner's buckets) and concatenating the
    answers yields each `(id, bucket)` stored under that owner exactly once and nothing else. -/
theorem C16_buckets_paging (m : Market) (o k : Nat) (h : (akeys m.buckets).Nodup)
    (hk : (ownerBuckets m o).length ≤ 20 * k) :
    let pages := (List.range k).flatMap fun i => (qBuckets m (.valid o) (i + 1)).getD []
    pages.Nodup ∧ ∀ x, x ∈ pages ↔ ((o, x.1), x.2) ∈ m.buckets := by
  intro pages
  have hp : pages = ownerBuckets m o := C16_pages_all (ownerBuckets m o) k hk
  rw [hp]
  exact ⟨ownerRecs_nodup _ _ h, ownerRecs_mem _ _⟩

/-- non-vacuity of `C16_buckets_paging` -/
example : (akeys C16Ex.mkt.buckets).Nodup ∧ (ownerBuckets C16Ex.mkt 1).length ≤ 20 * 1 := by
  rw [C16Ex.ownerBuckets_mkt]; decide

/-- The first sentence of C16 for `get_listings_by_owner`, end to end.  The answer carries the
    `Listing` values only; they are pairwise distinct because every record is stored under the
    key `(creator, id)` of the record itself (part of `wfListing`, property C12). -/
theorem C16_listings_paging (m : Market) (o k : Nat) (h : (akeys m.listings).Nodup)
    (hkey : ∀ p ∈ m.listings, p.1 = (p.2.creator, p.2.id))
    (hk : (ownerListings m o).length ≤ 20 * k) :
    let pages := (List.range k).flatMap fun i => (qListingsByOwner m (.valid o) (i + 1)).getD []
    pages.Nodup ∧ ∀ l, l ∈ pages ↔ ((o, l.id), l) ∈ m.listings := by
  intro pages
  have hp : pages = (ownerListings m o).map (·.2) := by
    have h1 : pages = ((List.range k).flatMap fun i => pageOf (ownerListings m o) (i + 1)).map (·.2) := by
      rw [List.map_flatMap]; rfl
    rw [h1, C16_pages_all _ k hk]
  rw [hp]
  refine ⟨ownerListings_vals_nodup m o h hkey, ?_⟩
  intro l
  rw [List.mem_map]
  constructor
  · rintro ⟨⟨i, l'⟩, hm, rfl⟩
    have hm' := (ownerRecs_mem m.listings o (i, l')).1 hm
    have := hkey _ hm'
    simp only [Prod.mk.injEq] at this
    rw [← this.2]
    exact hm'
  · intro hm
    exact ⟨(l.id, l), (ownerRecs_mem m.listings o (l.id, l)).2 hm, rfl⟩

/-- non-vacuity of `C16_listings_paging` -/
example : (akeys C16Ex.mkt.listings).Nodup ∧
    (∀ p ∈ C16Ex.mkt.listings, p.1 = (p.2.creator, p.2.id)) ∧
    (ownerListings C16Ex.mkt 1).length ≤ 20 * 1 := by
  rw [C16Ex.ownerListings_mkt]; decide

/-! ### 4. what is listed is purchasable -/

/-- "so a listed item is never already unpurchasable": a well-formed record that passes the
    filter of the market / whitelist query (has an expiration not in the past, is not closed) is
    finalized, unsold and unexpired. -/
theorem C16_listed_purchasable {j u : Nat} {k : Nat × Nat} {l : Listing} {nowNs : Nat}
    (hwf : wfListing j u k l = true) (hl : listable nowNs l = true) :
    purchasable nowNs l = true :=
  wf_listable_purchasable hwf hl

/-- non-vacuity of `C16_listed_purchasable` -/
example : wfListing 10 11 (1, 7) C16Ex.l1 = true ∧ listable C16Ex.now C16Ex.l1 = true := by decide

/-- "The market … quer[y] return[s] precisely the listings that are finalized, unsold and
    unexpired … a listed item is never already unpurchasable" (soundness): whatever page of the
    market query is asked, every listing in the answer is a stored one and is purchasable. -/
theorem C16_market_sound {j u : Nat} {m : Market} {nowNs page : Nat} {r : List Listing}
    (hwf : ∀ p ∈ m.listings, wfListing j u p.1 p.2 = true)
    (hq : qMarket m nowNs page = some r) :
    ∀ l ∈ r, purchasable nowNs l = true ∧ ∃ k, (k, l) ∈ m.listings := by
  intro l hl
  unfold qMarket at hq
  split at hq
  · exact absurd hq (by simp)
  · simp only [Option.some.injEq] at hq
    subst hq
    obtain ⟨hmem, hlist⟩ := List.mem_filter.1 hl
    obtain ⟨k, hk, _⟩ := mem_marketWindow.1 (mem_of_mem_pageOf hmem)
    exact ⟨wf_listable_purchasable (hwf _ hk) hlist, k, hk⟩

/-- non-vacuity of `C16_market_sound`: the example market is well-formed and page 1 is answered
    with exactly the one purchasable listing -/
example : (∀ p ∈ C16Ex.mkt.listings, wfListing 10 11 p.1 p.2 = true) ∧
    qMarket C16Ex.mkt C16Ex.now 1 = some [C16Ex.l1] :=
  ⟨by decide, C16Ex.qMarket_mkt⟩

/-- "(for the whitelist query, those reserved for that buyer)" (soundness): every listing in
    the answer is stored, reserved for the asking buyer, and purchasable. -/
theorem C16_whitelist_sound {j u : Nat} {m : Market} {nowNs o : Nat} {r : List Listing}
    (hwf : ∀ p ∈ m.listings, wfListing j u p.1 p.2 = true)
    (hq : qWhitelisted m nowNs (.valid o) = some r) :
    ∀ l ∈ r, purchasable nowNs l = true ∧ l.whitelist = some o ∧ ∃ k, (k, l) ∈ m.listings := by
  intro l hl
  simp only [qWhitelisted, rawValid, Option.some.injEq] at hq
  subst hq
  obtain ⟨hmem, hlist⟩ := List.mem_filter.1 hl
  rw [List.mem_mergeSort, List.mem_map] at hmem
  obtain ⟨⟨k, l'⟩, hm, rfl⟩ := hmem
  obtain ⟨hm, hw⟩ := List.mem_filter.1 hm
  exact ⟨wf_listable_purchasable (hwf _ hm) hlist, by simpa using hw, k, hm⟩

/-- non-vacuity of `C16_whitelist_sound` -/
example : (∀ p ∈ C16Ex.mkt.listings, wfListing 10 11 p.1 p.2 = true) ∧
    qWhitelisted C16Ex.mkt C16Ex.now (.valid 2) = some [C16Ex.l1] :=
  ⟨by decide, C16Ex.qWhitelisted_mkt⟩

/-! ### 5. what is purchasable is listed -/

/-- "return precisely the listings that are finalized, unsold and unexpired" (completeness, the
    index window): a well-formed purchasable listing was finalized at most 1 209 600 whole
    seconds before the block time — its lifetime is at most two weeks (`wfTimes`) and it has not
    expired — so it lies inside the window `[now_s − 1209600, ∞)` the market query scans.
    (No assumption on the block time is needed for this step: in the model the subtraction
    truncates; the query itself needs `TWO_WEEKS ≤ nowNs / NS`, see `C16_market_complete`.) -/
theorem C16_market_window {j u : Nat} {m : Market} {nowNs : Nat} {k : Nat × Nat} {l : Listing}
    (hm : (k, l) ∈ m.listings) (hwf : wfListing j u k l = true)
    (hp : purchasable nowNs l = true) : l ∈ marketWindow m nowNs :=
  mem_marketWindow.2 ⟨k, hm, wf_purchasable_window hwf hp⟩

/-- "return precisely the listings that are finalized, unsold and unexpired" (completeness):
    with a block time of at least two weeks, every well-formed purchasable listing appears on
    some page `≥ 1` of the market query, and that page starts inside the index window.
    The reach of the `u8` page number is explicit: if the window holds at most 5100 records the
    page is at most 255; a purchasable listing behind more than 5100 index entries (all finalized
    within the last two weeks and ordered before it) cannot be addressed by any `u8` page. -/
theorem C16_market_complete {j u : Nat} {m : Market} {nowNs : Nat} {k : Nat × Nat} {l : Listing}
    (hnow : TWO_WEEKS ≤ nowNs / NS)
    (hm : (k, l) ∈ m.listings) (hwf : wfListing j u k l = true)
    (hp : purchasable nowNs l = true) :
    ∃ page, 1 ≤ page ∧ (page - 1) * 20 < (marketWindow m nowNs).length ∧
      ((marketWindow m nowNs).length ≤ 5100 → page ≤ 255) ∧
      ∃ r, qMarket m nowNs page = some r ∧ l ∈ r := by
  obtain ⟨page, h1, h2, h3⟩ := mem_pageOf_of_mem (C16_market_window hm hwf hp)
  refine ⟨page, h1, h2, by omega, _, ?_, List.mem_filter.2 ⟨h3, purchasable_listable hp⟩⟩
  unfold qMarket
  rw [if_neg (by omega)]

/-- non-vacuity of `C16_market_window` and `C16_market_complete` -/
example : TWO_WEEKS ≤ C16Ex.now / NS ∧ ((1, 7), C16Ex.l1) ∈ C16Ex.mkt.listings ∧
    wfListing 10 11 (1, 7) C16Ex.l1 = true ∧ purchasable C16Ex.now C16Ex.l1 = true := by decide

/-- "The market … quer[y] return[s] precisely the listings that are finalized, unsold and
    unexpired": with well-formed records, a block time of at least two weeks and an index
    window within the reach of a `u8` page number, a listing is on some page `1..255` of the
    market query iff it is stored and purchasable. -/
theorem C16_market_precise {j u : Nat} {m : Market} {nowNs : Nat} (l : Listing)
    (hwf : ∀ p ∈ m.listings, wfListing j u p.1 p.2 = true)
    (hnow : TWO_WEEKS ≤ nowNs / NS) (hlen : (marketWindow m nowNs).length ≤ 5100) :
    (∃ page, 1 ≤ page ∧ page ≤ 255 ∧ ∃ r, qMarket m nowNs page = some r ∧ l ∈ r) ↔
      ∃ k, (k, l) ∈ m.listings ∧ purchasable nowNs l = true := by
  constructor
  · rintro ⟨page, _, _, r, hq, hl⟩
    obtain ⟨hp, k, hk⟩ := C16_market_sound hwf hq l hl
    exact ⟨k, hk, hp⟩
  · rintro ⟨k, hk, hp⟩
    obtain ⟨page, h1, _, h3, r, hq, hl⟩ := C16_market_complete hnow hk (hwf _ hk) hp
    exact ⟨page, h1, h3 hlen, r, hq, hl⟩

/-- the same without the `u8` bound on either side: over all page numbers `≥ 1` the market
    query returns precisely the stored purchasable listings, whatever the size of the window -/
theorem C16_market_precise_unbounded {j u : Nat} {m : Market} {nowNs : Nat} (l : Listing)
    (hwf : ∀ p ∈ m.listings, wfListing j u p.1 p.2 = true) (hnow : TWO_WEEKS ≤ nowNs / NS) :
    (∃ page, 1 ≤ page ∧ ∃ r, qMarket m nowNs page = some r ∧ l ∈ r) ↔
      ∃ k, (k, l) ∈ m.listings ∧ purchasable nowNs l = true := by
  constructor
  · rintro ⟨page, _, r, hq, hl⟩
    obtain ⟨hp, k, hk⟩ := C16_market_sound hwf hq l hl
    exact ⟨k, hk, hp⟩
  · rintro ⟨k, hk, hp⟩
    obtain ⟨page, h1, _, _, r, hq, hl⟩ := C16_market_complete hnow hk (hwf _ hk) hp
    exact ⟨page, h1, r, hq, hl⟩

/-- non-vacuity of `C16_market_precise` / `C16_market_precise_unbounded` -/
example : (∀ p ∈ C16Ex.mkt.listings, wfListing 10 11 p.1 p.2 = true) ∧
    TWO_WEEKS ≤ C16Ex.now / NS ∧ (marketWindow C16Ex.mkt C16Ex.now).length ≤ 5100 := by
  rw [C16Ex.marketWindow_mkt]; decide

/-! ### 6. the whitelist query, exactly -/

/-- "The … whitelist quer[y] return[s] precisely the listings that are … (… reserved for that
    buyer)": membership in the answer is exactly "stored, reserved for `o`, passes the filter". -/
theorem C16_whitelist_exact {m : Market} {nowNs o : Nat} {r : List Listing} (l : Listing)
    (hq : qWhitelisted m nowNs (.valid o) = some r) :
    l ∈ r ↔ ∃ k, (k, l) ∈ m.listings ∧ l.whitelist = some o ∧ listable nowNs l = true := by
  simp only [qWhitelisted, rawValid, Option.some.injEq] at hq
  subst hq
  rw [List.mem_filter, List.mem_mergeSort, List.mem_map]
  constructor
  · rintro ⟨⟨⟨k, l'⟩, hm, rfl⟩, hlist⟩
    obtain ⟨hm, hw⟩ := List.mem_filter.1 hm
    exact ⟨k, hm, by simpa using hw, hlist⟩
  · rintro ⟨k, hm, hw, hlist⟩
    exact ⟨⟨(k, l), List.mem_filter.2 ⟨hm, by simpa using hw⟩, rfl⟩, hlist⟩

/-- non-vacuity of `C16_whitelist_exact`: the query is answered, with a non-empty list -/
example : qWhitelisted C16Ex.mkt C16Ex.now (.valid 2) = some [C16Ex.l1] := C16Ex.qWhitelisted_mkt

/-- with well-formed records the whitelist query returns precisely the purchasable listings
    reserved for the buyer -/
theorem C16_whitelist_precise {j u : Nat} {m : Market} {nowNs o : Nat} {r : List Listing}
    (l : Listing) (hwf : ∀ p ∈ m.listings, wfListing j u p.1 p.2 = true)
    (hq : qWhitelisted m nowNs (.valid o) = some r) :
    l ∈ r ↔ ∃ k, (k, l) ∈ m.listings ∧ l.whitelist = some o ∧ purchasable nowNs l = true := by
  rw [C16_whitelist_exact l hq]
  constructor
  · rintro ⟨k, hm, hw, hl⟩
    exact ⟨k, hm, hw, wf_listable_purchasable (hwf _ hm) hl⟩
  · rintro ⟨k, hm, hw, hp⟩
    exact ⟨k, hm, hw, purchasable_listable hp⟩

/-- non-vacuity of `C16_whitelist_precise` -/
example : (∀ p ∈ C16Ex.mkt.listings, wfListing 10 11 p.1 p.2 = true) ∧
    qWhitelisted C16Ex.mkt C16Ex.now (.valid 2) = some [C16Ex.l1] :=
  ⟨by decide, C16Ex.qWhitelisted_mkt⟩

/-- the whitelist query is answered for every valid address, refused for an invalid one -/
theorem C16_whitelist_total (m : Market) (nowNs o : Nat) :
    (∃ r, qWhitelisted m nowNs (.valid o) = some r) ∧ qWhitelisted m nowNs .invalid = none :=
  ⟨⟨_, rfl⟩, rfl⟩

/-! ### 7. the fee query -/

/-- "The fee query reports the denomination the next purchase will be charged in and a
    next-change time before which a cycle attempt is refused and after which it is accepted."
    The side condition keeps the saturating additions of the Rust from saturating (block
    seconds would have to be within a week of `u64::MAX`); at saturation `next_change = u64::MAX`
    while a cycle at that second is still refused. -/
theorem C16_fee (m : Market) (env : Env) (h : m.feeSince + WEEK + 1 ≤ U64MAX) :
    let r := qFeeDenom m env
    r.denom = feeDenomOf env m.feeKind ∧ r.kind = m.feeKind ∧
    r.nextChange = m.feeSince + WEEK + 1 ∧
    ((∃ x, cycleFee m env = .ok x) ↔ env.nowNs / NS ≥ r.nextChange) := by
  intro r
  have hr : r.nextChange = m.feeSince + WEEK + 1 := by
    show min (min (m.feeSince + WEEK) U64MAX + 1) U64MAX = _
    omega
  refine ⟨rfl, rfl, hr, ?_⟩
  rw [hr]
  unfold cycleFee
  simp only
  by_cases hc : env.nowNs / NS ≤ min (m.feeSince + WEEK) U64MAX
  · rw [if_pos hc]
    constructor
    · rintro ⟨x, hx⟩; exact absurd hx (by simp)
    · intro h'; omega
  · rw [if_neg hc]
    constructor
    · intro _; omega
    · intro _; exact ⟨_, rfl⟩

/-- non-vacuity of `C16_fee` -/
example : C16Ex.mkt.feeSince + WEEK + 1 ≤ U64MAX := by decide

/-- the side condition of `C16_fee` is needed: at saturation the reported second is refused -/
example : (U64MAX * NS) / NS ≥
      (qFeeDenom { C16Ex.mkt with feeSince := U64MAX } { C16Ex.env with nowNs := U64MAX * NS }).nextChange ∧
    ¬ ∃ x, cycleFee { C16Ex.mkt with feeSince := U64MAX } { C16Ex.env with nowNs := U64MAX * NS } = .ok x := by
  refine ⟨by decide, ?_⟩
  rintro ⟨x, hx⟩
  simp [cycleFee, U64MAX, NS, WEEK] at hx

/-! ### 8. the documented assumption of the market query -/

/-- The market query fails exactly when the block time is below 1 209 600 s
    (`current_time - 1_209_600` underflows) — the documented assumption. -/
theorem C16_market_none_iff (m : Market) (nowNs p : Nat) :
    qMarket m nowNs p = none ↔ nowNs / NS < TWO_WEEKS := by
  unfold qMarket
  split <;> simp [*]

/-- both sides of `C16_market_none_iff` occur -/
example : qMarket C16Ex.mkt (1209599 * NS) 1 = none ∧ qMarket C16Ex.mkt C16Ex.now 1 ≠ none := by
  refine ⟨by decide, ?_⟩
  rw [C16Ex.qMarket_mkt]; simp

/-- hence, from two weeks on, every page number is answered -/
theorem C16_market_total (m : Market) (nowNs p : Nat) (h : TWO_WEEKS ≤ nowNs / NS) :
    ∃ r, qMarket m nowNs p = some r := by
  unfold qMarket
  rw [if_neg (by omega)]
  exact ⟨_, rfl⟩

/-- non-vacuity of `C16_market_total` -/
example : TWO_WEEKS ≤ C16Ex.now / NS := by decide

#print axioms C16_pages_cover
#print axioms C16_pages_all
#print axioms C16_page_beyond
#print axioms C16_pages_u8
#print axioms C16_page_zero
#print axioms C16_owner_total
#print axioms C16_owner_invalid
#print axioms C16_owner_beyond
#print axioms C16_owner_exact_buckets
#print axioms C16_owner_exact_listings
#print axioms C16_buckets_paging
#print axioms C16_listings_paging
#print axioms C16_listed_purchasable
#print axioms C16_market_sound
#print axioms C16_whitelist_sound
#print axioms C16_market_window
#print axioms C16_market_complete
#print axioms C16_market_precise
#print axioms C16_market_precise_unbounded
#print axioms C16_whitelist_exact
#print axioms C16_whitelist_precise
#print axioms C16_whitelist_total
#print axioms C16_fee
#print axioms C16_market_none_iff
#print axioms C16_market_total

end Fuzion
