/-
  Fuzion.Props.C14Reach — C14 "Royalty entries change only by the collection's admin, within
  bounds", lifted from one handler call / one transaction (Props/C14.lean) to whole HISTORIES.

  Property text:  A collection's royalty entry can be created, modified or removed only by the
  account that is that NFT contract's admin at that moment; its rate is always between 10 and
  300 bps; and an existing entry cannot be modified or removed until 100 blocks after it was
  created or last modified, while from then on the admin can.  Lookups, single or batched, return
  the current entry (or none) for each requested collection, in request order.

  `run w0 ops` is the state after the history `ops` (any mix of marketplace messages, token sends,
  registry messages, admin hand-overs, clock ticks, by anybody, accepted or refused) from ANY start
  world `w0`; `run w0 (ops.take i)` the state in which the `i`-th operation `ops[i]` runs.

  * `C14_history_changes_reach` — if the entry of collection `c` after `ops[i]` differs from the one
    before, then `ops[i]` is an accepted registry message naming `c`, sent by the account the
    contract table records as `c`'s admin in the state in which it runs; an entry that existed was
    at least 100 blocks old (the model's saturated comparison, and the plain one below block
    2⁶⁴ − 1); an entry that exists afterwards is stamped with that state's height and its rate is
    within 10..300.  Hypothesis: the rates of `w0.reg` are within bounds (e.g. `w0.reg = []`).
  * `C14_entry_bounds_reach` / `C14_entry_provenance_reach` — every entry of every reached state has
    its rate within bounds and a stamp not in the future; from the empty registry no hypothesis.
  * `C14_entry_written_by_admin_reach` — from the empty registry every entry found in `run w0 ops`
    was written by an identified operation `ops[i]`: an accepted registry message of the admin of
    that moment, stamped with the height of that moment, and not touched since.
  * `C14_marketplace_never_changes_registry_reach` — a history without registry messages leaves
    the registry as it was (all prefixes); `C14_other_collections_untouched_reach` — a history
    without registry messages naming `c` leaves `c`'s entry as it was.
  * `C14_lookup_current_reach` / `C14_lookup_unique_reach` — single and batched lookups (and the
    marketplace's own lookup `env.regLookup`) on a reached state return `alookup c reg` per requested
    collection in request order, and that is the one stored pair of the collection.
-/
import Fuzion.Props.C14
import Fuzion.Lemmas.FrameLemmas
import Fuzion.Lemmas.AcctLemmas
namespace Fuzion

/-! ## helpers -/

/-- the state after `i + 1` operations is one transaction after the state after `i` -/
theorem c14r_run_take_succ (w0 : World) (ops : List Op) (i : Nat) (hi : i < ops.length) :
    run w0 (ops.take (i + 1)) = (step (run w0 (ops.take i)) ops[i]).1 := by
  rw [List.take_succ_eq_append_getElem hi, run_append]
  rfl

/-- the block height never decreases -/
theorem c14r_step_height_mono (w : World) (op : Op) : w.height ≤ (step w op).1.height := by
  unfold step
  cases ho : op.asExec with
  | some tr =>
    obtain ⟨c, f, msg⟩ := tr
    rcases stepF_market (fail := noFault) (w := w) ho with ⟨e, h⟩ | ⟨m', msgs, w2, _, _, hc, h⟩
    · rw [h]; exact Nat.le_refl _
    · rw [h]; exact Nat.le_of_eq hc.height.symm
  | none =>
    cases op with
    | exec s fu m => simp [Op.asExec] at ho
    | send20 t s a i => simp [Op.asExec] at ho
    | send721 co s t i => simp [Op.asExec] at ho
    | royalty s m =>
      rcases stepF_royalty noFault w s m with ⟨e, _, h⟩ | ⟨r, _, h⟩ <;> rw [h] <;> exact Nat.le_refl _
    | setAdmin s c n =>
      simp only [stepF]
      repeat' split
      all_goals exact Nat.le_refl _
    | advance a b => exact Nat.le_add_right _ _

/-- one transaction, any kind: a changed entry of `c` means an accepted registry message that
    names `c`, by `c`'s admin of the pre-state, outside the cooldown (`C14_step_change_guard` plus
    the collection named by the message) -/
theorem c14r_step_change_names {w : World} {op : Op} {c : Nat}
    (hch : alookup c (step w op).1.reg ≠ alookup c w.reg) :
    ∃ sender msg, op = .royalty sender msg ∧ msg.nft = .valid c ∧ (step w op).2.ok = true ∧
      (∃ ci, alookup c w.contracts = some ci ∧ ci.admin = some sender) ∧
      (∀ e, alookup c w.reg = some e → min (e.lastUpdated + COOLDOWN) U64MAX ≤ w.height) ∧
      (∀ e', alookup c (step w op).1.reg = some e' → e'.lastUpdated = w.height) := by
  obtain ⟨sender, msg, rfl, hok, hadm, hcool, hst⟩ := C14_step_change_guard hch
  obtain ⟨c0, hn, _, hother⟩ := C14_step_admin hok
  have hc : c = c0 := Decidable.byContradiction fun hne => hch (hother c hne)
  subst hc
  exact ⟨sender, msg, rfl, hn, hok, hadm, hcool, hst⟩

/-- stamps are never in the future: preserved by every transaction -/
theorem c14r_step_stamp_inv {w : World} (op : Op) (hinv : ∀ p ∈ w.reg, p.2.lastUpdated ≤ w.height) :
    ∀ p ∈ (step w op).1.reg, p.2.lastUpdated ≤ (step w op).1.height := by
  by_cases hr : ∃ s m, op = .royalty s m
  · obtain ⟨s, m, rfl⟩ := hr
    unfold step
    rcases stepF_royalty noFault w s m with ⟨e, _, h⟩ | ⟨r, hx, h⟩
    · rw [h]; exact hinv
    · rw [h]; exact C14_stamp_inv (env := w.regEnv) hinv hx
  · intro p hp
    rw [C14_frame (fun s m h => hr ⟨s, m, h⟩)] at hp
    exact Nat.le_trans (hinv p hp) (c14r_step_height_mono w op)

/-! ## 1. who changes an entry, when, and to what — along a history -/

/-- **C14 along histories** "can be created, modified or removed only by the account that is that
    NFT contract's admin at that moment; its rate is always between 10 and 300 bps; … cannot be
    modified or removed until 100 blocks after it was created or last modified".
    For EVERY history `ops` from a world whose registry rates are within bounds, every position `i`
    and every collection `c`: if the entry of `c` after the `i`-th operation differs from the one
    before it, then `ops[i]` is a registry message `.royalty sender msg` that names `c`, was
    accepted, and whose `sender` is the admin the contract table of the state `run w0 (ops.take i)`
    — the state in which it runs — records for contract `c`; if an entry existed before, the
    model's test `min (lastUpdated + 100) u64::MAX ≤ height` held in that state (so below block
    `u64::MAX` at least 100 blocks have passed: `lastUpdated + 100 ≤ height`); and an entry that
    exists afterwards is stamped with that state's height and its rate is within 10..300. -/
theorem C14_history_changes_reach {w0 : World}
    (hinv : ∀ p ∈ w0.reg, MIN_BPS ≤ p.2.bps ∧ p.2.bps ≤ MAX_BPS) (ops : List Op) (i : Nat)
    (hi : i < ops.length) {c : Nat}
    (hch : alookup c (run w0 (ops.take (i + 1))).reg ≠ alookup c (run w0 (ops.take i)).reg) :
    ∃ sender msg, ops[i] = .royalty sender msg ∧ msg.nft = .valid c ∧
      (step (run w0 (ops.take i)) ops[i]).2.ok = true ∧
      (∃ ci, alookup c (run w0 (ops.take i)).contracts = some ci ∧ ci.admin = some sender) ∧
      (∀ e, alookup c (run w0 (ops.take i)).reg = some e →
        min (e.lastUpdated + COOLDOWN) U64MAX ≤ (run w0 (ops.take i)).height ∧
        ((run w0 (ops.take i)).height < U64MAX →
          e.lastUpdated + COOLDOWN ≤ (run w0 (ops.take i)).height)) ∧
      (∀ e', alookup c (run w0 (ops.take (i + 1))).reg = some e' →
        e'.lastUpdated = (run w0 (ops.take i)).height ∧ MIN_BPS ≤ e'.bps ∧ e'.bps ≤ MAX_BPS) := by
  rw [c14r_run_take_succ w0 ops i hi] at hch
  obtain ⟨sender, msg, hop, hn, hok, hadm, hcool, hst⟩ := c14r_step_change_names hch
  refine ⟨sender, msg, hop, hn, hok, hadm, ?_, ?_⟩
  · intro e he
    exact ⟨hcool e he, fun hH => (min_sat_le_iff_of_lt hH).1 (hcool e he)⟩
  · intro e' he'
    have hb := C14_reach_bps hinv (ops.take (i + 1)) (c, e') (alookup_some_mem he')
    rw [c14r_run_take_succ w0 ops i hi] at he'
    exact ⟨hst e' he', hb⟩

/-- … in particular from the empty registry, with no hypothesis at all -/
theorem C14_history_changes_empty_reach {w0 : World} (h0 : w0.reg = []) (ops : List Op) (i : Nat)
    (hi : i < ops.length) {c : Nat}
    (hch : alookup c (run w0 (ops.take (i + 1))).reg ≠ alookup c (run w0 (ops.take i)).reg) :
    ∃ sender msg, ops[i] = .royalty sender msg ∧ msg.nft = .valid c ∧
      (step (run w0 (ops.take i)) ops[i]).2.ok = true ∧
      (∃ ci, alookup c (run w0 (ops.take i)).contracts = some ci ∧ ci.admin = some sender) ∧
      (∀ e, alookup c (run w0 (ops.take i)).reg = some e →
        min (e.lastUpdated + COOLDOWN) U64MAX ≤ (run w0 (ops.take i)).height ∧
        ((run w0 (ops.take i)).height < U64MAX →
          e.lastUpdated + COOLDOWN ≤ (run w0 (ops.take i)).height)) ∧
      (∀ e', alookup c (run w0 (ops.take (i + 1))).reg = some e' →
        e'.lastUpdated = (run w0 (ops.take i)).height ∧ MIN_BPS ≤ e'.bps ∧ e'.bps ≤ MAX_BPS) :=
  C14_history_changes_reach (fun p hp => by rw [h0] at hp; cases hp) ops i hi hch

/-! ## 2. what every stored entry looks like -/

/-- "its rate is always between 10 and 300 bps", "created or last modified": in every state reached
    from a world whose entries are within bounds and not stamped in the future, every stored entry
    has its rate within bounds and a stamp not above the current height. -/
theorem C14_entry_bounds_reach {w0 : World}
    (hb : ∀ p ∈ w0.reg, MIN_BPS ≤ p.2.bps ∧ p.2.bps ≤ MAX_BPS)
    (hs : ∀ p ∈ w0.reg, p.2.lastUpdated ≤ w0.height) (ops : List Op) :
    ∀ p ∈ (run w0 ops).reg,
      MIN_BPS ≤ p.2.bps ∧ p.2.bps ≤ MAX_BPS ∧ p.2.lastUpdated ≤ (run w0 ops).height := by
  intro p hp
  obtain ⟨h1, h2⟩ := C14_reach_bps hb ops p hp
  refine ⟨h1, h2, ?_⟩
  clear hb h1 h2
  induction ops generalizing w0 with
  | nil => exact hs p hp
  | cons op ops ih => exact ih (c14r_step_stamp_inv op hs) hp

/-- **C14 from the empty registry**: every entry present in any reached state has
    `MIN_BPS ≤ bps ≤ MAX_BPS` and `lastUpdated ≤` the current height.  No other hypothesis. -/
theorem C14_entry_provenance_reach {w0 : World} (h0 : w0.reg = []) (ops : List Op) :
    ∀ p ∈ (run w0 ops).reg,
      MIN_BPS ≤ p.2.bps ∧ p.2.bps ≤ MAX_BPS ∧ p.2.lastUpdated ≤ (run w0 ops).height :=
  C14_entry_bounds_reach (fun p hp => by rw [h0] at hp; cases hp)
    (fun p hp => by rw [h0] at hp; cases hp) ops

/-- prefix form of the next theorem -/
theorem c14r_entry_written_prefix {w0 : World} (h0 : w0.reg = []) (ops : List Op) (c : Nat) (n : Nat) :
    n ≤ ops.length → ∀ e, alookup c (run w0 (ops.take n)).reg = some e →
    ∃ i, ∃ hi : i < ops.length, i < n ∧ ∃ sender msg, ops[i] = .royalty sender msg ∧
      msg.nft = .valid c ∧ (step (run w0 (ops.take i)) ops[i]).2.ok = true ∧
      (∃ ci, alookup c (run w0 (ops.take i)).contracts = some ci ∧ ci.admin = some sender) ∧
      e.lastUpdated = (run w0 (ops.take i)).height ∧
      (∀ j, i < j → j ≤ n → alookup c (run w0 (ops.take j)).reg = some e) := by
  induction n with
  | zero =>
    intro _ e he
    rw [List.take_zero] at he
    simp only [run] at he
    rw [h0] at he
    cases he
  | succ n ih =>
    intro hn e he
    have hlt : n < ops.length := hn
    by_cases heq : alookup c (run w0 (ops.take (n + 1))).reg = alookup c (run w0 (ops.take n)).reg
    · rw [heq] at he
      obtain ⟨i, hi, hin, sender, msg, h1, h2, h3, h4, h5, h6⟩ := ih (Nat.le_of_lt hlt) e he
      refine ⟨i, hi, Nat.lt_succ_of_lt hin, sender, msg, h1, h2, h3, h4, h5, ?_⟩
      intro j hij hj
      by_cases hjn : j ≤ n
      · exact h6 j hij hjn
      · have : j = n + 1 := by omega
        subst this
        rw [heq]; exact he
    · obtain ⟨sender, msg, h1, h2, h3, h4, _, h6⟩ :=
        C14_history_changes_empty_reach h0 ops n hlt heq
      refine ⟨n, hlt, Nat.lt_succ_self n, sender, msg, h1, h2, h3, h4, (h6 e he).1, ?_⟩
      intro j hij hj
      have : j = n + 1 := by omega
      subst this
      exact he

/-- **provenance**: from the empty registry, every entry `e` found for a collection `c` after ANY
    history was written by an identified operation of that history: some `ops[i]` is a registry
    message naming `c`, accepted, sent by the account that was `c`'s admin in the state in which it
    ran; `e` is stamped with the height of that state; and `c`'s entry has been `e` after every
    later operation (nobody — marketplace, token contract, later admin — touched it since). -/
theorem C14_entry_written_by_admin_reach {w0 : World} (h0 : w0.reg = []) (ops : List Op) {c : Nat}
    {e : RoyaltyInfo} (he : alookup c (run w0 ops).reg = some e) :
    ∃ i, ∃ hi : i < ops.length, ∃ sender msg, ops[i] = .royalty sender msg ∧
      msg.nft = .valid c ∧ (step (run w0 (ops.take i)) ops[i]).2.ok = true ∧
      (∃ ci, alookup c (run w0 (ops.take i)).contracts = some ci ∧ ci.admin = some sender) ∧
      e.lastUpdated = (run w0 (ops.take i)).height ∧
      (∀ j, i < j → j ≤ ops.length → alookup c (run w0 (ops.take j)).reg = some e) := by
  have he' : alookup c (run w0 (ops.take ops.length)).reg = some e := by
    rw [List.take_length]; exact he
  obtain ⟨i, hi, _, sender, msg, h⟩ :=
    c14r_entry_written_prefix h0 ops c ops.length (Nat.le_refl _) e he'
  exact ⟨i, hi, sender, msg, h⟩

/-! ## 3. nobody else changes the registry -/

/-- **C14 along histories** "can be created, modified or removed only by …": no marketplace
    operation (`.exec`, `.send20`, `.send721` — accepted or failed, forged hook calls included), no
    admin hand-over and no clock tick changes the registry: after a history without registry
    messages, and after every prefix of it, `reg` is what it was.  Any start world. -/
theorem C14_marketplace_never_changes_registry_reach (w0 : World) (ops : List Op)
    (hops : ∀ op ∈ ops, ∀ s m, op ≠ .royalty s m) :
    (run w0 ops).reg = w0.reg ∧ ∀ n, (run w0 (ops.take n)).reg = w0.reg := by
  have key : ∀ (l : List Op) (w : World), (∀ op ∈ l, ∀ s m, op ≠ .royalty s m) →
      (run w l).reg = w.reg := by
    intro l
    induction l with
    | nil => intro w _; rfl
    | cons op l ih =>
      intro w h
      show (run (step w op).1 l).reg = w.reg
      rw [ih _ (fun o ho => h o (List.mem_cons_of_mem _ ho))]
      exact C14_frame (h op List.mem_cons_self)
  exact ⟨key ops w0 hops, fun n => key _ w0 (fun op ho => hops op (List.mem_of_mem_take ho))⟩

/-- … per collection: whatever registry traffic there is about OTHER collections (and whatever
    else happens), a history in which no registry message names `c` leaves `c`'s entry — present
    or absent — exactly as it was.  Any start world. -/
theorem C14_other_collections_untouched_reach (w0 : World) (ops : List Op) (c : Nat)
    (hops : ∀ op ∈ ops, ∀ s m, op = .royalty s m → m.nft ≠ .valid c) :
    alookup c (run w0 ops).reg = alookup c w0.reg := by
  induction ops generalizing w0 with
  | nil => rfl
  | cons op ops ih =>
    show alookup c (run (step w0 op).1 ops).reg = alookup c w0.reg
    rw [ih _ (fun o ho => hops o (List.mem_cons_of_mem _ ho))]
    refine Decidable.byContradiction fun hne => ?_
    obtain ⟨s, m, hop, hn, _⟩ := c14r_step_change_names hne
    exact hops op List.mem_cons_self s m hop hn

/-- refused registry messages change nothing either: a history whose registry messages are all
    refused (e.g. all sent by non-admins, or all inside the cooldown) leaves the registry as it was -/
theorem C14_refused_never_changes_registry_reach (w0 : World) (ops : List Op)
    (hops : ∀ i (hi : i < ops.length), (∃ s m, ops[i] = .royalty s m) →
      (step (run w0 (ops.take i)) ops[i]).2.ok = false) :
    (run w0 ops).reg = w0.reg := by
  have key : ∀ n, n ≤ ops.length → (run w0 (ops.take n)).reg = w0.reg := by
    intro n
    induction n with
    | zero => intro _; rw [List.take_zero]; rfl
    | succ n ih =>
      intro hn
      have hlt : n < ops.length := hn
      rw [c14r_run_take_succ w0 ops n hlt, ← ih (Nat.le_of_lt hlt)]
      by_cases hr : ∃ s m, ops[n] = .royalty s m
      · have hf := hops n hlt hr
        unfold step at hf ⊢
        rw [stepF_failed_noop noFault _ _ hf]
      · exact C14_frame (fun s m h => hr ⟨s, m, h⟩)
  have := key ops.length (Nat.le_refl _)
  rwa [List.take_length] at this

/-! ## 4. lookups on reached states -/

/-- **C14 along histories** "Lookups, single or batched, return the current entry (or none) for
    each requested collection, in request order": on the registry of ANY reached state the single
    lookup of `c` is `alookup c reg`; so is what the marketplace sees through its environment
    (`env.regLookup`, used for the royalties of a purchase); a non-empty batch returns the list of
    `alookup c reg` in request order; position by position for any accepted batch; the empty batch
    is rejected. -/
theorem C14_lookup_current_reach (w0 : World) (ops : List Op) :
    (∀ c, regSingle (run w0 ops).reg c = alookup c (run w0 ops).reg) ∧
    (∀ c, (run w0 ops).env.regLookup c = alookup c (run w0 ops).reg) ∧
    (∀ cs, cs ≠ [] →
      regMulti (run w0 ops).reg cs = some (cs.map fun c => alookup c (run w0 ops).reg)) ∧
    (∀ cs out, regMulti (run w0 ops).reg cs = some out →
      out.length = cs.length ∧
      ∀ i (hi : i < cs.length), out[i]? = some (alookup cs[i] (run w0 ops).reg)) ∧
    regMulti (run w0 ops).reg [] = none :=
  ⟨fun c => C14_single _ c, fun _ => rfl, fun _ h => C14_multi _ h,
   fun _ _ h => C14_multi_get h, C14_multi_nil _⟩

/-- "the current entry": in every state reached from a registry with one entry per collection
    (e.g. the empty one) the lookup answer for `c` is THE stored pair of `c` — `(c, e)` is stored
    exactly when the lookup returns `e` — so no stale second entry can hide behind it. -/
theorem C14_lookup_unique_reach {w0 : World} (hnd : (akeys w0.reg).Nodup) (ops : List Op) (c : Nat)
    (e : RoyaltyInfo) :
    (c, e) ∈ (run w0 ops).reg ↔ regSingle (run w0 ops).reg c = some e :=
  ⟨fun hm => mem_nodup_alookup (C14_reach_nodup hnd ops) hm, fun h => alookup_some_mem h⟩

/-- … and the lookup follows every change at once: right after the `i`-th operation the lookup
    returns the entry of the state after it (there is no cache) — in particular after an accepted
    registry message of the admin the new entry, stamped with the height at which it ran. -/
theorem C14_lookup_follows_reach (w0 : World) (ops : List Op) (i : Nat) (hi : i < ops.length)
    (c : Nat) :
    regSingle (run w0 (ops.take (i + 1))).reg c =
      alookup c (step (run w0 (ops.take i)) ops[i]).1.reg ∧
    (run w0 (ops.take (i + 1))).env.regLookup c =
      alookup c (step (run w0 (ops.take i)) ops[i]).1.reg := by
  rw [c14r_run_take_succ w0 ops i hi]
  exact ⟨rfl, rfl⟩

/-! ## non-vacuity

`AcctEx.w0` (Lemmas/AcctLemmas.lean): height 200, collection 60 administered by account 4, its
entry `⟨0, 250, 9⟩` stored.  In `AcctEx.ops` operation 5 is account 4's `Update` of the payout
address; all other operations are marketplace traffic and a clock tick.

`C14REx.w0` is the same world with the empty registry; in `C14REx.ops` account 4 registers 50 bps
for collection 60, is refused an update 99 blocks later, hands the collection over to account 2
after 100 blocks, is refused again (no longer admin), and account 2 raises the rate to 300 bps;
marketplace traffic in between. -/

namespace C14REx
def w0 : World := { AcctEx.w0 with reg := [] }
def ops : List Op :=
  [ .royalty 4 (.register (.valid 60) (.valid 9) 50),
    .exec 1 [⟨1, 1000⟩] (.createListing 3 ⟨⟨[⟨2, 2000⟩], [], []⟩, none⟩),
    .advance 0 99,
    .royalty 4 (.update (.valid 60) none (some 300)),
    .advance 0 1,
    .setAdmin 4 60 (some 2),
    .royalty 4 (.update (.valid 60) none (some 300)),
    .send721 60 1 7 (some (.addToListing 3)),
    .royalty 2 (.update (.valid 60) none (some 300)),
    .exec 1 [] (.finalize 3 600) ]
/-- the marketplace-only part of the sample history `AcctEx.ops` -/
def mktOps : List Op := AcctEx.ops.take 5 ++ AcctEx.ops.drop 6
end C14REx

-- `C14_history_changes_reach`: hypotheses, and a position at which the entry of 60 changes
example : ∀ p ∈ AcctEx.w0.reg, MIN_BPS ≤ p.2.bps ∧ p.2.bps ≤ MAX_BPS := by decide
example : (5 < AcctEx.ops.length) ∧
    alookup 60 (run AcctEx.w0 (AcctEx.ops.take (5 + 1))).reg ≠
      alookup 60 (run AcctEx.w0 (AcctEx.ops.take 5)).reg ∧
    alookup 60 (run AcctEx.w0 (AcctEx.ops.take 6)).reg = some ⟨200, 250, 6⟩ := by decide
-- from the empty registry: creation at position 0, modification at position 8 (by the NEW admin,
-- 100 blocks after the creation: 200 + 100 ≤ 300); the refused attempts change nothing
example : C14REx.w0.reg = [] := rfl
example : alookup 60 (run C14REx.w0 (C14REx.ops.take (0 + 1))).reg ≠
      alookup 60 (run C14REx.w0 (C14REx.ops.take 0)).reg ∧
    alookup 60 (run C14REx.w0 (C14REx.ops.take (8 + 1))).reg ≠
      alookup 60 (run C14REx.w0 (C14REx.ops.take 8)).reg ∧
    alookup 60 (run C14REx.w0 (C14REx.ops.take 8)).reg = some ⟨200, 50, 9⟩ ∧
    (run C14REx.w0 (C14REx.ops.take 8)).height = 300 ∧
    (alookup 60 (run C14REx.w0 (C14REx.ops.take 8)).contracts).map (·.admin) = some (some 2) ∧
    (step (run C14REx.w0 (C14REx.ops.take 3)) (.royalty 4 (.update (.valid 60) none (some 300)))).2.err
      = some .cooldown ∧
    (step (run C14REx.w0 (C14REx.ops.take 6)) (.royalty 4 (.update (.valid 60) none (some 300)))).2.err
      = some .notAdmin := by decide
-- `C14_entry_provenance_reach` / `C14_entry_written_by_admin_reach`: the final state stores an entry
example : (run C14REx.w0 C14REx.ops).reg = [(60, ⟨300, 300, 9⟩)] ∧
    (run C14REx.w0 C14REx.ops).height = 300 ∧
    alookup 60 (run C14REx.w0 C14REx.ops).reg = some ⟨300, 300, 9⟩ := by decide
-- `C14_entry_bounds_reach`: hypotheses on a non-empty start registry
example : (∀ p ∈ AcctEx.w0.reg, MIN_BPS ≤ p.2.bps ∧ p.2.bps ≤ MAX_BPS) ∧
    (∀ p ∈ AcctEx.w0.reg, p.2.lastUpdated ≤ AcctEx.w0.height) := by decide
-- `C14_marketplace_never_changes_registry_reach`: nine operations, none a registry message, eight
-- of them accepted (a trade with royalty payout among them)
example : (∀ op ∈ C14REx.mktOps, ∀ s m, op ≠ .royalty s m) ∧ C14REx.mktOps.length = 9 ∧
    (run AcctEx.w0 C14REx.mktOps).mkt.listingUsed ≠ AcctEx.w0.mkt.listingUsed := by
  refine ⟨?_, by decide, by decide⟩
  intro op hop s m h
  subst h
  simp [C14REx.mktOps, AcctEx.ops] at hop
-- `C14_other_collections_untouched_reach`: no message of the second history names collection 61
example : ∀ op ∈ C14REx.ops, ∀ s m, op = .royalty s m → m.nft ≠ .valid 61 := by
  intro op hop s m h
  subst h
  have : m.nft = .valid 60 := by
    revert hop
    simp only [C14REx.ops, List.mem_cons, Op.royalty.injEq, List.not_mem_nil, reduceCtorEq, false_or,
      or_false]
    rintro (⟨_, rfl⟩ | ⟨_, rfl⟩ | ⟨_, rfl⟩ | ⟨_, rfl⟩) <;> rfl
  rw [this]; decide
-- `C14_refused_never_changes_registry_reach`: a stranger's and a too-early message
example : (step C14REx.w0 (.royalty 7 (.register (.valid 60) (.valid 9) 50))).2.ok = false ∧
    (step AcctEx.w0 (.royalty 4 (.remove (.valid 61)))).2.ok = false := by decide
-- `C14_lookup_current_reach`: a batched lookup on the reached state, in request order
example : regMulti (run C14REx.w0 C14REx.ops).reg [61, 60] = some [none, some ⟨300, 300, 9⟩] ∧
    (run C14REx.w0 C14REx.ops).env.regLookup 60 = some ⟨300, 300, 9⟩ := by decide
-- `C14_lookup_unique_reach`: hypothesis
example : (akeys AcctEx.w0.reg).Nodup ∧ (akeys C14REx.w0.reg).Nodup := by decide

/-! ## axioms -/

#print axioms C14_history_changes_reach
#print axioms C14_history_changes_empty_reach
#print axioms C14_entry_bounds_reach
#print axioms C14_entry_provenance_reach
#print axioms C14_entry_written_by_admin_reach
#print axioms C14_marketplace_never_changes_registry_reach
#print axioms C14_other_collections_untouched_reach
#print axioms C14_refused_never_changes_registry_reach
#print axioms C14_lookup_current_reach
#print axioms C14_lookup_unique_reach
#print axioms C14_lookup_follows_reach

end Fuzion
