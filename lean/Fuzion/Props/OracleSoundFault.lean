/-
  Fuzion.Props.OracleSoundFault — the two fault-injection oracles never raise a false alarm on
  the model.

  On a `STEPF` line the harness forces the `k`-th dispatched message of the response to fail; the
  driver then evaluates (`Fuzion/Driver/Oracles.lean`)
    * `oracle15  cur op k ioOk unchanged` (C15): if the unfaulted model step is accepted and has a
      `k`-th message, the faulted operation must fail and leave the world as it was;
    * `oracle10f cur op k ioOk` (C10): if moreover that message is the community-pool deposit,
      the faulted operation must not be accepted (the proceeds must not leave).
  Here: on the model's own faulted step `stepF (fun i => i == k)` both answer `true`, with no
  hypothesis on the world at all.  `World` has no `DecidableEq`, so `sound_o15` quantifies over
  the Boolean the harness reports for "the world is unchanged" and only asks that it be `true`
  whenever the faulted step really returns the world it started from.
-/
import Fuzion.Props.OracleSound
import Fuzion.Props.C15
namespace Fuzion
open Fuzion.Orc

/-! ## sample data: a withdrawal that emits four messages, the last one the pool deposit -/

namespace OrcFaultEx

/-- the sample history of C01 just before the buyer withdraws the purchased listing: the goods
    (995 of denom 1, 400 of token 50, NFT (60, 7)) go to account 2 and the pending fee of 5 of
    denom 1 to the community pool -/
def w : World := OrcEx.wWd
def op : Op := OrcEx.opWd

/-- the fault predicate of a `STEPF` line -/
def failAt (k : Nat) : Nat → Bool := fun i => i == k

end OrcFaultEx

/-! ## 1. the fact behind both oracles -/

/-- "All or nothing" under the harness' fault: if the unfaulted step is accepted and emits a
    `k`-th message, then the step in which exactly that message is made to fail is refused and
    returns the world it started from (`C15_fault_aborts`). -/
theorem sound_fault_aborts (w : World) (op : Op) (k : Nat)
    (h0 : (stepF noFault w op).2.ok = true) (hk : k < (stepF noFault w op).2.msgs.length) :
    (stepF (fun i => i == k) w op).2.ok = false ∧ (stepF (fun i => i == k) w op).1 = w := by
  cases ho : op.asExec with
  | none =>
    rw [stepF_msgs_of_asExec_none noFault ho] at hk
    cases hk
  | some t =>
    obtain ⟨c, f, msg⟩ := t
    rcases stepF_ok_cases (fail := noFault) (w := w) ho with ⟨h1, _⟩ | ⟨_, msgs, hx, _, hmsgs⟩
    · rw [h1] at h0; cases h0
    · rw [hmsgs] at hk
      obtain ⟨e1, e2⟩ := C15_fault_aborts (fail := fun i => i == k) ho hx hk (by simp)
      exact ⟨e2, e1⟩

-- non-vacuity: the unfaulted withdrawal is accepted and emits four messages, the pool deposit
-- last; with the fault on any of them the step is refused
example : (stepF noFault OrcFaultEx.w OrcFaultEx.op).2.ok = true ∧
    (stepF noFault OrcFaultEx.w OrcFaultEx.op).2.msgs =
      [.bankSend 2 [⟨1, 995⟩], .cw20Transfer 50 2 400, .nftTransfer 60 7 2, .fundPool 100 ⟨1, 5⟩] ∧
    (3 < (stepF noFault OrcFaultEx.w OrcFaultEx.op).2.msgs.length) ∧
    ((List.range 4).all fun k =>
      !(stepF (OrcFaultEx.failAt k) OrcFaultEx.w OrcFaultEx.op).2.ok) = true ∧
    -- a fault beyond the response is invisible
    (stepF (OrcFaultEx.failAt 4) OrcFaultEx.w OrcFaultEx.op).2.ok = true := by decide

/-! ## 2. C15 -/

/-- `o15` never fires on the model's own faulted step: whatever Boolean `unchanged` is reported,
    provided it is `true` when the faulted step returns the world it started from. -/
theorem sound_o15 (w : World) (op : Op) (k : Nat) (unchanged : Bool)
    (hu : (stepF (fun i => i == k) w op).1 = w → unchanged = true) :
    oracle15 w op k (stepF (fun i => i == k) w op).2.ok unchanged = true := by
  unfold oracle15
  dsimp only
  cases h0 : (stepF noFault w op).2.ok with
  | false => rfl
  | true =>
    by_cases hk : k < (stepF noFault w op).2.msgs.length
    · obtain ⟨e1, e2⟩ := sound_fault_aborts w op k h0 hk
      rw [e1, hu e2]
      simp
    · simp [hk]

/-- the same as two facts about the step itself (no reported Boolean): the oracle with the true
    answers `ioOk = false`, `unchanged = true` is `true`, and these are the answers of the model
    whenever the oracle's premise holds -/
theorem sound_o15_facts (w : World) (op : Op) (k : Nat) :
    oracle15 w op k false true = true ∧
    ((stepF noFault w op).2.ok = true → k < (stepF noFault w op).2.msgs.length →
      (stepF (fun i => i == k) w op).2.ok = false ∧ (stepF (fun i => i == k) w op).1 = w) :=
  ⟨by simp [oracle15], sound_fault_aborts w op k⟩

-- the oracle is not trivially true: it flags an accepted or a dirty faulted withdrawal, for the
-- fault on the first message as well as on the pool deposit …
example : oracle15 OrcFaultEx.w OrcFaultEx.op 0 true true = false ∧
    oracle15 OrcFaultEx.w OrcFaultEx.op 3 false false = false ∧
    oracle15 OrcFaultEx.w OrcFaultEx.op 3 true false = false ∧
    -- … is satisfied by the model's answers …
    oracle15 OrcFaultEx.w OrcFaultEx.op 3
      (stepF (OrcFaultEx.failAt 3) OrcFaultEx.w OrcFaultEx.op).2.ok true = true ∧
    -- … and says nothing when the fault lies beyond the response
    oracle15 OrcFaultEx.w OrcFaultEx.op 4 true false = true := by decide

/-! ## 3. C10 -/

/-- `o10f` never fires on the model's own faulted step: when the community-pool deposit is the
    message made to fail, the operation is refused, so the proceeds do not leave. -/
theorem sound_o10f (w : World) (op : Op) (k : Nat) :
    oracle10f w op k (stepF (fun i => i == k) w op).2.ok = true := by
  unfold oracle10f
  dsimp only
  cases h0 : (stepF noFault w op).2.ok with
  | false => rfl
  | true =>
    by_cases hk : k < (stepF noFault w op).2.msgs.length
    · rw [(sound_fault_aborts w op k h0 hk).1]
      simp
    · simp [hk]

-- the oracle is not trivially true: an accepted withdrawal whose pool deposit (message 3) failed
-- is flagged; a fault on another message is C15's business, not this oracle's
example : (stepF noFault OrcFaultEx.w OrcFaultEx.op).2.msgs[3]? = some (.fundPool 100 ⟨1, 5⟩) ∧
    oracle10f OrcFaultEx.w OrcFaultEx.op 3 true = false ∧
    oracle10f OrcFaultEx.w OrcFaultEx.op 0 true = true ∧
    oracle10f OrcFaultEx.w OrcFaultEx.op 3
      (stepF (OrcFaultEx.failAt 3) OrcFaultEx.w OrcFaultEx.op).2.ok = true := by decide

/-! ## axioms -/

#print axioms sound_fault_aborts
#print axioms sound_o15
#print axioms sound_o15_facts
#print axioms sound_o10f

end Fuzion
