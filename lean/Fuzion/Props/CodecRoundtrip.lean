/-
  Fuzion.Props.CodecRoundtrip — the protocol parser inverts the protocol printer.

  `Driver/Print.lean`: "`Props/CodecRoundtrip.lean` proves `parse (print x ++ rest) = some (x, rest)` for
  all values: the printer is injective, so two different worlds / operations never share a line."

  Consequences for the driver: (1) every `World` (with its `idxOk` flag) and every `Op` HAS a protocol
  line that the driver's parser reads back as exactly that value, whatever follows on the line
  (`world_roundtrip`, `op_roundtrip`); (2) the run-time echo check `pWorld (parse line) = line` identifies
  the parsed value uniquely: no second world / operation prints to the same tokens
  (`pWorld_injective`, `pOp_injective`).

  Component lemmas: `Lemmas/CodecLemmas.lean`.
-/
import Fuzion.Lemmas.CodecLemmas
namespace Fuzion.Codec
open Fuzion

attribute [local simp] P.bind_apply P.pure_apply P.failure_apply P.map_apply

/-- "parse (print x ++ rest) = some (x, rest) for all values" — WORLD: parsing the printed form of any
world `w` with any `idxOk` flag, followed by arbitrary further tokens `rest`, yields exactly `(w, idxOk)`
and leaves exactly `rest`. -/
theorem world_roundtrip (w : World) (idxOk : Bool) (rest : List String) :
    world (pWorld w idxOk ++ rest) = some ((w, idxOk), rest) := by
  have hreg : (do let c ← nat; let i ← royInfo; pure (c, i) : P (Nat × RoyaltyInfo)) = regEntry := rfl
  unfold world
  rw [hreg]
  simp [pWorld, List.append_assoc]

/-- "parse (print x ++ rest) = some (x, rest) for all values" — OP: parsing the printed form of any
operation `o`, followed by arbitrary further tokens `rest`, yields exactly `o` (together with the kind
string `opKind o` used for reporting) and leaves exactly `rest`. -/
theorem op_roundtrip (o : Op) (rest : List String) :
    op (pOp o ++ rest) = some ((opKind o, o), rest) := by
  cases o with
  | exec s f m => cases m <;> simp [op, pOp, opKind, execTag, List.append_assoc]
  | send20 tk s a i => simp [op, pOp, opKind]
  | send721 c s tid i => simp [op, pOp, opKind]
  | royalty s m => cases m <;> simp [op, pOp, opKind, royTag]
  | setAdmin s c n => simp [op, pOp, opKind]
  | advance a b => simp [op, pOp, opKind]

/-- "the printer is injective, so two different worlds … never share a line": equal WORLD token lists
come from equal worlds and equal `idxOk` flags. -/
theorem pWorld_injective {w w' : World} {b b' : Bool} (h : pWorld w b = pWorld w' b') :
    w = w' ∧ b = b' := by
  have h1 := world_roundtrip w b []
  rw [h, world_roundtrip w' b' []] at h1
  simp only [Option.some.injEq, Prod.mk.injEq, and_true] at h1
  exact ⟨h1.1.symm, h1.2.symm⟩

/-- "the printer is injective, so two different … operations never share a line": equal OP token lists
come from equal operations. -/
theorem pOp_injective {o o' : Op} (h : pOp o = pOp o') : o = o' := by
  have h1 := op_roundtrip o []
  rw [h, op_roundtrip o' []] at h1
  simp only [Option.some.injEq, Prod.mk.injEq, and_true] at h1
  exact h1.2.symm

/-- injectivity also with trailing tokens: a line is split into WORLD and remainder in only one way -/
theorem pWorld_append_injective {w w' : World} {b b' : Bool} {r r' : List String}
    (h : pWorld w b ++ r = pWorld w' b' ++ r') : w = w' ∧ b = b' ∧ r = r' := by
  have h1 := world_roundtrip w b r
  rw [h, world_roundtrip w' b' r'] at h1
  simp only [Option.some.injEq, Prod.mk.injEq] at h1
  exact ⟨h1.1.1.symm, h1.1.2.symm, h1.2.symm⟩

/-- injectivity also with trailing tokens: a line is split into OP and remainder in only one way -/
theorem pOp_append_injective {o o' : Op} {r r' : List String}
    (h : pOp o ++ r = pOp o' ++ r') : o = o' ∧ r = r' := by
  have h1 := op_roundtrip o r
  rw [h, op_roundtrip o' r'] at h1
  simp only [Option.some.injEq, Prod.mk.injEq] at h1
  exact ⟨h1.1.2.symm, h1.2.symm⟩

/-! ### non-vacuity: concrete, non-trivial values -/

/-- a world with a listing (all optional fields present, three kinds of assets), a bucket, both id
lists, a registry entry, ledgers and two contracts -/
def rtWorld : World :=
  { self := 1, pool := 2, regAddr := 3, junoD := 100, usdcD := 101, nowNs := 1700000000000000000,
    height := 12345,
    mkt := { listings := [((10, 7), { creator := 10, id := 7, finalizedAt := some 5, expiresAt := some 99,
                                      status := .finalized, claimant := none, whitelist := some 11,
                                      forSale := ⟨[⟨100, 5⟩], [⟨20, 6⟩], [⟨30, 1⟩, ⟨30, 2⟩]⟩,
                                      ask := ⟨[⟨101, 340282366920938463463374607431768211455⟩], [], []⟩,
                                      fee := some ⟨100, 1⟩ })],
             buckets := [((11, 1), ⟨11, ⟨[⟨101, 9⟩], [], []⟩, none⟩)],
             listingUsed := [7, 8], bucketUsed := [1],
             feeKind := .usdc, feeSince := 42, registry := some 3 },
    reg := [(30, ⟨17, 250, 12⟩)],
    bank := [((10, 100), 1000), ((11, 101), 0)],
    cw20 := [((20, 10), 77)],
    nft := [((30, 1), 1), ((30, 2), 1)],
    contracts := [(20, ⟨some 9, 1, true, false⟩), (30, ⟨none, 2, false, true⟩)] }

/-- an `exec` carrying funds and a cw20 `receive` hook with a nested create-listing message that uses
both raw-address forms -/
def rtOp : Op :=
  .exec 10 [⟨100, 5⟩, ⟨101, 6⟩]
    (.receive (.valid 10) 77 (some (.createListing 7 ⟨⟨[⟨100, 1⟩], [(.valid 20, 3)], [(.invalid, 4)]⟩, some .invalid⟩)))

/-- the printed forms are what PROTOCOL.md prescribes (evaluated by the kernel) -/
example : pOp rtOp =
    ["X", "10", "2", "100", "5", "101", "6", "RC", "V", "10", "77", "CL", "7",
     "1", "100", "1", "1", "V", "20", "3", "1", "I", "4", "I"] := by decide

example : pWorld rtWorld true =
    ["1", "2", "3", "100", "101", "1700000000000000000", "12345",
     -- one listing, keyed (10, 7)
     "1", "10", "7", "10", "7", "S", "5", "S", "99", "1", "N", "S", "11",
     "1", "100", "5", "1", "20", "6", "2", "30", "1", "30", "2",
     "1", "101", "340282366920938463463374607431768211455", "0", "0", "S", "100", "1",
     -- one bucket, keyed (11, 1)
     "1", "11", "1", "11", "1", "101", "9", "0", "0", "N",
     -- used ids, fee kind, fee since, registry, idxOk
     "2", "7", "8", "1", "1", "1", "42", "S", "3", "1",
     -- registry, bank, cw20, nft, contracts
     "1", "30", "17", "250", "12", "2", "10", "100", "1000", "11", "101", "0", "1", "20", "10", "77",
     "2", "30", "1", "1", "30", "2", "1", "2", "20", "S", "9", "1", "1", "0", "30", "N", "2", "0", "1"] := by
  decide

/-- the WORLD round trip on the concrete world, with trailing tokens (the parser's `String.toNat?` does
not reduce in the kernel, so this instantiates the theorem; the `#eval`s quoted below run it) -/
example : world (pWorld rtWorld true ++ ["X", "1"]) = some ((rtWorld, true), ["X", "1"]) :=
  world_roundtrip rtWorld true ["X", "1"]

/-- the OP round trip on the concrete operation; the kind string is computed -/
example : op (pOp rtOp ++ ["="]) = some (("X.RC.CL", rtOp), ["="]) :=
  op_roundtrip rtOp ["="]

/-- `pWorld_injective` / `pOp_injective`: the hypothesis is met by equal values (trivially) and the
conclusion separates different ones — changing only the `idxOk` flag, or only one amount, changes the line -/
example : pWorld rtWorld true = pWorld rtWorld true := rfl
example : pWorld rtWorld true ≠ pWorld rtWorld false := fun h => by simpa using (pWorld_injective h).2
example : pWorld rtWorld true ≠ pWorld { rtWorld with height := 12346 } true :=
  fun h => by simpa [rtWorld] using congrArg World.height (pWorld_injective h).1
example : pOp rtOp = pOp rtOp := rfl
example : pOp rtOp ≠ pOp (.advance 1 2) := fun h => by simpa [rtOp] using pOp_injective h

/-- the hypotheses of the `…_append_injective` forms are met by a concrete line -/
example : pOp rtOp ++ ["="] = pOp rtOp ++ ["="] := rfl
example : pWorld rtWorld true ++ ["="] = pWorld rtWorld true ++ ["="] := rfl

-- Executable cross-check (the parser really runs on the printed tokens):
--   #eval (op (pOp rtOp ++ ["="])).map (fun r => (r.1.1, decide (r.1.2 = rtOp), r.2))
--     evaluates to  some ("X.RC.CL", true, ["="])
--   #eval (world (pWorld rtWorld true ++ ["t"])).map (fun r => (pWorld r.1.1 r.1.2 == pWorld rtWorld true, r.1.2, r.2))
--     evaluates to  some (true, true, ["t"])

#print axioms world_roundtrip
#print axioms op_roundtrip
#print axioms pWorld_injective
#print axioms pOp_injective
#print axioms pWorld_append_injective
#print axioms pOp_append_injective

end Fuzion.Codec
