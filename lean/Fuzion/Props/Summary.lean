/-
  Fuzion.Props.Summary — the specification in one place.

  For EVERY history `ops` from a freshly deployed marketplace `w0` (`Deployed`, Props/C01Closed.lean)
  that meets the input-side conditions `CleanHistory`, the reached state `𝐰 = run w0 ops` enjoys all
  of `MarketGuarantees` at once: `guarantees_from_deployment`.  This file proves nothing new: every
  field is discharged by a theorem of the other Props files (named in the proof, in field order).
  Property texts: /verif/properties.jsonl.  Reading guide: `step w op = (w', outcome)` is one
  transaction, `outcome.ok` its success flag, `outcome.msgs` the messages it emitted.

  Second half: Props/Summary2.lean (`guarantees2_from_deployment : … → TradeGuarantees w0 ops`) states
  the guarantees of C05, C06, C11, C14, C15, C16, C17 in the same style, and `ForgeGuarantees` what IS
  true of C18 for histories that contain forged hook calls.  The abstract view (who is entitled to
  what; every transaction is a stutter, gain, loss or trade) is Props/Entitlement.lean and
  Props/EntCashout.lean.  Still only in its own file: C13 "between two switches"
  (`C13_between_switches_reach`; needs a clock bound on the continuation).
-/
import Fuzion.Props.C02World
import Fuzion.Props.C03Closed
import Fuzion.Props.C03Reach
import Fuzion.Props.C04Closed
import Fuzion.Props.C08Reach
import Fuzion.Props.C10Reach
import Fuzion.Props.C12Reach
import Fuzion.Props.C13Closed
import Fuzion.Props.C19
import Fuzion.Props.OracleSound
namespace Fuzion

/-- What is assumed about the initial world `w0` (beyond `Deployed`) and the history `ops`.
    Every field is a hypothesis of an existing closed theorem, checkable on concrete inputs. -/
structure CleanHistory (w0 : World) (ops : List Op) : Prop where
  /-- no operation is signed by the marketplace contract or registers it as royalty payout address -/
  notSelf : ∀ op ∈ ops, op.avoids w0.self
  /-- likewise for the community-pool account ("nobody else pays the pool"; used by C10 only) -/
  notPool : ∀ op ∈ ops, op.avoids w0.pool
  /-- no direct call of a receive hook: token deposits come through `Send` / `SendNft` (a forged
      hook call is finding C18); implies `Op.honest`, the weaker condition of C01 -/
  unforged : ∀ op ∈ ops, op.unforged
  /-- the `advance` operations keep the block time within a `u64` (used by C13 only) -/
  clock : w0.nowNs + closed_elapsed ops ≤ U64MAX
  /-- the marketplace was instantiated with the address of the real registry (used by C02 only) -/
  registry : w0.mkt.registry = some w0.regAddr
  /-- the initial NFT ledger is a map and knows honest collections only (used by `checkC01` only) -/
  ledger : NftLedgerOk w0

section
variable (w0 : World) (ops : List Op)
/-- the state reached by the history -/
local notation "𝐰" => run w0 ops

/-- The guarantees about the reached state `𝐰 = run w0 ops`: state invariants first, then what holds
    for ANY next transaction from `𝐰` (and any continuation after it). -/
structure MarketGuarantees : Prop where
  /-- C01 "for each native denomination and each CW20 token the marketplace's on-chain balance equals
      the total … promised by open listings, by buckets and by not-yet-paid community-pool fees, and
      the NFTs it owns are exactly the NFTs recorded … each in exactly one record" -/
  backed : Backed 𝐰
  /-- … and the three executable state oracles of the test driver agree (C01, C09, C12) -/
  oracles : checkC01 𝐰 = true ∧ checkIds 𝐰.mkt = true ∧ checkWF 𝐰 = true
  /-- C09 "at most one listing and one bucket exist per id at any time": the id invariant -/
  ids : IdsInv 𝐰.mkt
  /-- C09 "An id that has ever been accepted for a listing (a bucket) is rejected for every later
      creation by any account and through any deposit path, even after the original was deleted…" -/
  idNeverReused : ∀ op₀ op id ops', (step 𝐰 op₀).2.ok = true →
    (op₀.createsListing = some id → op.createsListing = some id →
      (step (run (step 𝐰 op₀).1 ops') op).2.ok = false) ∧
    (op₀.createsBucket = some id → op.createsBucket = some id →
      (step (run (step 𝐰 op₀).1 ops') op).2.ok = false)
  /-- C12 "Every listing and bucket … contains at least one asset, no zero amount, no duplicate …;
      status, timestamps, buyer and pending fee are mutually consistent" -/
  wellFormed : WFInv 𝐰.junoD 𝐰.usdcD 𝐰.mkt
  /-- C12 "a payout can never be rejected … for being empty, zero or duplicated": any next transaction -/
  msgsWellFormed : ∀ op, ∀ x ∈ (step 𝐰 op).2.msgs, x.wellFormed
  /-- C03 "a listing is sold at most once": successful purchases of each id along the history -/
  soldOnce : ∀ lid, buysOf lid w0 ops ≤ 1
  /-- C03 "under every ordering of competing purchases, deletions and withdrawals": after a purchase
      accepted in `𝐰`, every later purchase of that listing is refused, whatever happens in between -/
  secondBuyRefused : ∀ s f lid bid, (step 𝐰 (.exec s f (.buy lid bid))).2.ok = true →
    ∀ ops' s' f' bid', (step (run (step 𝐰 (.exec s f (.buy lid bid))).1 ops')
      (.exec s' f' (.buy lid bid'))).2.ok = false
  /-- C02 "A purchase succeeds if and only if the listing is finalized, unsold and not past its
      expiration, the caller is the whitelisted buyer …, owns the bucket, the bucket's contents equal
      the ask exactly … and the royalties due on each side do not exceed 50%" (`BuyTerms`) -/
  buyIff : ∀ buyer lid bid, (step 𝐰 (.exec buyer [] (.buy lid bid))).2.ok = true ↔
    BuyTerms 𝐰.mkt 𝐰.env buyer lid bid
  /-- C02 / C04 / C19 "Otherwise it is refused with no effect", "A refused or failed message of any
      kind leaves the sender's assets with the sender": a failed transaction returns the same world -/
  failedNoop : ∀ op, (step 𝐰 op).2.ok = false → (step 𝐰 op).1 = 𝐰
  /-- C04 "No message sent by an account … can alter, re-price, finalize, delete, top up or release
      assets from a listing … it does not currently own; such messages fail" (then `failedNoop`):
      every owner-only message aimed at the listing — direct, via `Send` / `SendNft`, or forged -/
  nonOwnerListing : ∀ k l, (k, l) ∈ 𝐰.mkt.listings → ∀ x, x ≠ l.creator →
    (∀ op c f msg, op.asExec = some (c, f, msg) → msg.listingTarget = some l.id → actor msg c = x →
      (step 𝐰 op).2.ok = false) ∧
    (step 𝐰 (.exec x [] (.withdrawPurchased l.id))).2.ok = false
  /-- C04 … "or bucket": top up, remove, pay with it -/
  nonOwnerBucket : ∀ k b, (k, b) ∈ 𝐰.mkt.buckets → ∀ x, x ≠ b.owner →
    ∀ op c f msg, op.asExec = some (c, f, msg) → msg.bucketTarget = some k.2 → actor msg c = x →
      (step 𝐰 op).2.ok = false
  /-- C07 "each record can be cashed out by its entitled party with a single message: an unfinalized
      listing by its creator at once, a finalized unsold listing by its creator once expired, a sold
      listing by its buyer at once, a bucket by its current owner at once"; and after waiting long
      enough the state is `Drainable` (`C07_drain`: all exits succeed, nothing is left) -/
  exits : (∀ k l, (k, l) ∈ 𝐰.mkt.listings → l.exitable 𝐰.nowNs →
      (step 𝐰 (.exec l.creator [] l.exitMsg)).2.ok = true) ∧
    (∀ k b, (k, b) ∈ 𝐰.mkt.buckets →
      (step 𝐰 (.exec b.owner [] (.removeBucket k.2))).2.ok = true) ∧
    ∃ dNs, Drainable (step 𝐰 (.advance dNs 0)).1
  /-- C08 "The owner of a listing still in preparation can finalize it for exactly the lifetimes
      between 600 and 1209600 seconds (bounds included)" -/
  finalizeIff : ∀ k l secs, (k, l) ∈ 𝐰.mkt.listings → l.status = .preparing →
    ((step 𝐰 (.exec l.creator [] (.finalize l.id secs))).2.ok = true ↔ 600 ≤ secs ∧ secs ≤ 1209600)
  /-- C08 "the seller cannot take it back before the expiration time": nobody's delete succeeds before -/
  binding : ∀ lid k l e s f, findById lid 𝐰.mkt.listings = some (k, l) → l.expiresAt = some e →
    𝐰.nowNs < e → (step 𝐰 (.exec s f (.deleteListing lid))).2.ok = false
  /-- C08 / C07 … and the seller of an unsold finalized listing can, exactly from the expiration on -/
  deleteIff : ∀ k l e, (k, l) ∈ 𝐰.mkt.listings → l.status = .finalized → l.expiresAt = some e →
    ((step 𝐰 (.exec l.creator [] (.deleteListing l.id))).2.ok = true ↔ e ≤ 𝐰.nowNs)
  /-- C08 "afterwards the listing's goods, ask, whitelist and expiration never change … A listing's
      status only moves forward … never reopened, re-finalized, re-priced or extended": after ANY
      continuation a non-preparing listing is gone or shows the same terms and a status not lower -/
  termsFrozen : ∀ lid k l ops', findById lid 𝐰.mkt.listings = some (k, l) → l.status ≠ .preparing →
    findById lid (run 𝐰 ops').mkt.listings = none ∨
    ∃ k' l', findById lid (run 𝐰 ops').mkt.listings = some (k', l') ∧ l'.status ≠ .preparing ∧
      l'.ask = l.ask ∧ l'.whitelist = l.whitelist ∧ l'.expiresAt = l.expiresAt ∧
      l'.finalizedAt = l.finalizedAt ∧ statusRank' l.status ≤ statusRank' l'.status
  /-- C10 "Every fee charged reaches the community pool exactly once": per denomination,
      pool balance + fees still pending = initial pool balance + Σ fees charged along the history -/
  feesConserved : ∀ d, lget 𝐰.bank (w0.pool, d) + pendingFee 𝐰.mkt d =
    lget w0.bank (w0.pool, d) + chargedRun w0 ops d
  /-- C10 "by a well-formed fund-community-pool message whose depositor is the marketplace and whose
      amount is the recorded fee": every pool message of any next transaction -/
  poolMsgs : ∀ op dep c, OutMsg.fundPool dep c ∈ (step 𝐰 op).2.msgs →
    dep = w0.self ∧ RecFee 𝐰.mkt c ∧ c.amount ≠ 0 ∧ (c.key = w0.junoD ∨ c.key = w0.usdcD)
  /-- C13 "never when fewer than 604800 seconds have elapsed since the previous switch or
      instantiation; once more than 604800 seconds have elapsed any account can switch it" -/
  cycleIff : ∀ s, (step 𝐰 (.exec s [] .feeCycle)).2.ok = true ↔
    𝐰.nowNs / NS > 𝐰.mkt.feeSince + WEEK
  /-- C19 "a non-deposit message … that arrives with coins attached is refused rather than silently
      keeping them": the world is unchanged, the coins are still the sender's -/
  fundsRefused : ∀ s funds msg, funds ≠ [] → msg.takesCoins = false →
    ∃ e, step 𝐰 (.exec s funds msg) = (𝐰, .fail e) ∧ (e = .fundsAttached ∨ e = .insufficient)
  /-- C19 "Apart from creating or topping up a listing or bucket, no marketplace message ever reduces
      its sender's balances" (coins, CW20 tokens, NFTs) -/
  noDebit : ∀ s funds msg, s ≠ 𝐰.self → msg.takesCoins = false →
    (step 𝐰 (.exec s funds msg)).2.ok = true →
    (∀ d, lget (step 𝐰 (.exec s funds msg)).1.bank (s, d) ≥ lget 𝐰.bank (s, d)) ∧
    (∀ t, lget (step 𝐰 (.exec s funds msg)).1.cw20 (t, s) ≥ lget 𝐰.cw20 (t, s)) ∧
    (∀ k, alookup k 𝐰.nft = some s → alookup k (step 𝐰 (.exec s funds msg)).1.nft = some s)
end

/-- **The specification**: every history from a deployment that meets `CleanHistory` reaches a state
    with all of `MarketGuarantees`.  Pure corollary collection, one existing theorem per field. -/
theorem guarantees_from_deployment {w0 : World} (hd : Deployed w0) (ops : List Op)
    (hc : CleanHistory w0 ops) : MarketGuarantees w0 ops := by
  obtain ⟨t, r, h0⟩ := hd.mkt
  have hU : ∀ op ∈ ops, op.avoids w0.self ∧ op.unforged :=
    fun op h => ⟨hc.notSelf op h, hc.unforged op h⟩
  have hH : ∀ op ∈ ops, op.avoids w0.self ∧ op.honest w0 :=
    fun op h => ⟨(hU op h).1, (hU op h).2.honest w0⟩
  have hpay : PayoutsNe w0.reg w0.pool := fun c e he => by rw [hd.reg0] at he; cases he
  exact {
    backed := C01_from_deployment hd ops hH
    oracles := sound_state_oracles_reach hd hc.ledger ops hH
    ids := C09_reach h0 ops
    idNeverReused := fun _ _ _ ops' hok =>
      ⟨C09_never_reused ops' hok, C09_never_reused_bucket ops' hok⟩
    wellFormed := closed_wf h0 ops
    msgsWellFormed := C12_msgs_wellFormed_step_reach h0 ops
    soldOnce := fun lid => C03_sold_once_reach h0 lid ops
    secondBuyRefused := fun _ _ _ _ hok => C03_second_buy_refused_reach h0 ops hok
    buyIff := C02_step_iff_deployed hd hc.registry ops hU
    failedNoop := C19_failed_noop noFault _
    nonOwnerListing := fun _ _ hm _ hx =>
      ⟨fun op c f msg ho ht ha => ((C04_non_owner_listing_reach h0 ops hm hx).1 op c f msg ho ht ha).1,
       (C04_non_owner_listing_reach h0 ops hm hx).2.1⟩
    nonOwnerBucket := fun _ _ hm _ hx op c f msg ho ht ha =>
      (C04_non_owner_bucket_reach h0 ops hm hx op c f msg ho ht ha).1
    exits := C07_from_deployment hd ops hU
    finalizeIff := fun _ _ secs hm hs => C08_finalize_step_iff_lit_reach h0 ops secs hm hs
    binding := fun _ _ _ _ s f hf he hn => (C08_step_binding_reach h0 ops s f hf he hn).1
    deleteIff := fun _ _ _ hm hs he => C08_delete_step_iff_reach hd ops hU hm hs he
    termsFrozen := fun _ _ _ ops' hf hs => C08_run_monotone_closed (closed_ids h0 ops) hf hs ops'
    feesConserved := C10_conservation_reach h0 hd.pool hpay ops hc.notPool
    poolMsgs := C10_wellformed_step_reach h0 ops
    cycleIff := C13_step_cycle_iff_reach w0 ops hc.clock
    fundsRefused := fun _ _ _ hf hk => C19_step_refused hf hk
    noDebit := fun _ _ _ hs hk hok => C19_no_debit hs hk hok }

/-! ## non-vacuity

From the concrete deployment `deployedEx` (Props/C01Closed.lean; account 1 holds 10 of denom 0 and 10
of denom 2): account 1 lists 10 of denom 0 for 10 of denom 2, finalizes for 600 s, fills bucket 5 with
the ask (`C02WEx.opsD`), buys its own listing with it, a week and a second pass, account 77 switches
the fee denomination, and account 1 withdraws the purchased goods. -/

namespace SummaryEx
def ops : List Op :=
  C02WEx.opsD ++ [.exec 1 [] (.buy 4 5), .advance (604801 * NS) 1, .exec 77 [] .feeCycle,
    .exec 1 [] (.withdrawPurchased 4)]

theorem clean : CleanHistory deployedEx ops :=
  ⟨by decide, by decide, by decide, by decide, rfl, ⟨by decide, by decide⟩⟩
end SummaryEx

/-- the hypotheses of `guarantees_from_deployment` are met by a non-trivial history … -/
example : MarketGuarantees deployedEx SummaryEx.ops :=
  guarantees_from_deployment C02WEx.deployedEx_ok SummaryEx.ops SummaryEx.clean

/-- … in which the purchase, the switch and the withdrawal are all accepted: listing 4 was bought once,
    is gone, the seller-side bucket is still there, the fee denomination has switched -/
example : buysOf 4 deployedEx SummaryEx.ops = 1 ∧ (run deployedEx SummaryEx.ops).mkt.listings = [] ∧
    (run deployedEx SummaryEx.ops).mkt.buckets.length = 1 ∧
    (run deployedEx SummaryEx.ops).mkt.feeKind = .usdc := by decide

#print axioms guarantees_from_deployment
#print axioms SummaryEx.clean
end Fuzion
