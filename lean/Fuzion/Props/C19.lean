/-
  Fuzion.Props.C19 — "Only deposit messages can take assets from their sender".

  Property text:  Apart from creating or topping up a listing or bucket, no marketplace message
  ever reduces its sender's balances: a non-deposit message (finalize, change ask, delete, buy,
  withdraw, remove bucket, fee cycle) that arrives with coins attached is refused rather than
  silently keeping them, and the token-receive entry points refuse attached coins.  A refused or
  failed message of any kind leaves the sender's assets with the sender.

  The model's `execute` contains the repair of defect D6 (`ExecMsg.takesCoins`): the pinned Rust
  accepts coins on the seven non-deposit kinds and keeps them; the theorems below are about the
  repaired entry point.

  World level: `step w (.exec s funds msg)` first moves `funds` from `s` to the marketplace (the
  chain does that before the contract runs) and returns the *original* world on any failure, so
  "refused" at world level means "the coins are back with the sender".
-/
import Fuzion.Lemmas.FrameLemmas
namespace Fuzion

/-! ## handler level -/

/-- "a non-deposit message (finalize, change ask, delete, buy, withdraw, remove bucket, fee
    cycle)": exactly these seven kinds are marked as not taking coins … -/
theorem C19_kinds :
    ExecMsg.feeCycle.takesCoins = false ∧
    (∀ id ask, (ExecMsg.changeAsk id ask).takesCoins = false) ∧
    (∀ id secs, (ExecMsg.finalize id secs).takesCoins = false) ∧
    (∀ id, (ExecMsg.deleteListing id).takesCoins = false) ∧
    (∀ id, (ExecMsg.removeBucket id).takesCoins = false) ∧
    (∀ lid bid, (ExecMsg.buy lid bid).takesCoins = false) ∧
    (∀ lid, (ExecMsg.withdrawPurchased lid).takesCoins = false) :=
  ⟨rfl, fun _ _ => rfl, fun _ _ => rfl, fun _ => rfl, fun _ => rfl, fun _ _ => rfl, fun _ => rfl⟩

/-- … and the remaining six ("creating or topping up a listing or bucket", directly or through a
    token's receive hook) are the only ones that may carry coins. -/
theorem C19_deposit_kinds (msg : ExecMsg) :
    msg.takesCoins = true ↔
      (∃ id c, msg = .createListing id c) ∨ (∃ id, msg = .addToListing id) ∨
      (∃ id, msg = .createBucket id) ∨ (∃ id, msg = .addToBucket id) ∨
      (∃ s a i, msg = .receive s a i) ∨ (∃ s t i, msg = .receiveNft s t i) := by
  cases msg <;> simp [ExecMsg.takesCoins]

/-- "a non-deposit message … that arrives with coins attached is refused rather than silently
    keeping them": whatever the state, the clock and the sender. -/
theorem C19_refused {m : Market} {env : Env} {s : Nat} {funds : List Coin} {msg : ExecMsg}
    (hk : msg.takesCoins = false) (hf : funds ≠ []) :
    execute m env s funds msg = .error .fundsAttached := by
  cases funds with
  | nil => exact absurd rfl hf
  | cons a t => simp [execute, hk]

/-- "the token-receive entry points refuse attached coins" (CW20 hook) -/
theorem C19_hooks_refuse {m : Market} {env : Env} {s : Nat} {funds : List Coin}
    (a : RawAddr) (b : Nat) (c : Option Inner) (hf : funds ≠ []) :
    execute m env s funds (.receive a b c) = .error .fundsAttached := by
  cases funds with
  | nil => exact absurd rfl hf
  | cons x t => simp [execute, ExecMsg.takesCoins, receive]

/-- "the token-receive entry points refuse attached coins" (CW721 hook) -/
theorem C19_hooks_refuse_nft {m : Market} {env : Env} {s : Nat} {funds : List Coin}
    (a : RawAddr) (b : Nat) (c : Option Inner) (hf : funds ≠ []) :
    execute m env s funds (.receiveNft a b c) = .error .fundsAttached := by
  cases funds with
  | nil => exact absurd rfl hf
  | cons x t => simp [execute, ExecMsg.takesCoins, receiveNft]

-- non-vacuity of the hypotheses
example : (ExecMsg.finalize 7 600).takesCoins = false := rfl
example : ([⟨1, 5⟩] : List Coin) ≠ [] := by decide

/-! ## world level -/

/-- "A refused or failed message of any kind leaves the sender's assets with the sender": a
    transaction that does not succeed — refused by a guard, short of funds, a failing transfer,
    an injected fault, any operation kind — returns the world it started from; in particular
    every balance and every NFT is exactly where it was (coins attached to the message
    included). -/
theorem C19_failed_noop (fail : Nat → Bool) (w : World) (op : Op)
    (h : (stepF fail w op).2.ok = false) : (stepF fail w op).1 = w :=
  stepF_failed_noop fail w op h

/-- `C19_failed_noop` spelled out on the three token ledgers -/
theorem C19_failed_assets (w : World) (op : Op) (h : (step w op).2.ok = false) :
    (step w op).1.bank = w.bank ∧ (step w op).1.cw20 = w.cw20 ∧ (step w op).1.nft = w.nft := by
  have := C19_failed_noop noFault w op h
  unfold step
  rw [this]
  exact ⟨rfl, rfl, rfl⟩

/-- "a non-deposit message … that arrives with coins attached is refused rather than silently
    keeping them", as a transaction: the step fails — either the sender does not even have the
    coins, or the entry point refuses — and the world is the original one, so the attached coins
    are still the sender's. -/
theorem C19_step_refused {w : World} {s : Nat} {funds : List Coin} {msg : ExecMsg}
    (hf : funds ≠ []) (hk : msg.takesCoins = false) :
    ∃ e, step w (.exec s funds msg) = (w, .fail e) ∧ (e = .fundsAttached ∨ e = .insufficient) := by
  have hne : funds.isEmpty = false := by cases funds <;> simp_all
  simp only [step, stepF, hne]
  cases bankSend w.bank s w.self funds with
  | none => exact ⟨_, rfl, .inr rfl⟩
  | some b =>
    refine ⟨.fundsAttached, ?_, .inl rfl⟩
    simp [runMarket, C19_refused hk hf]

/-- "the token-receive entry points refuse attached coins", as a transaction (a direct call of
    the CW20 hook with coins attached; same for the CW721 hook below) -/
theorem C19_step_hook_refused {w : World} {s : Nat} {funds : List Coin} (a : RawAddr) (b : Nat)
    (c : Option Inner) (hf : funds ≠ []) :
    ∃ e, step w (.exec s funds (.receive a b c)) = (w, .fail e) ∧
      (e = .fundsAttached ∨ e = .insufficient) := by
  have hne : funds.isEmpty = false := by cases funds <;> simp_all
  simp only [step, stepF, hne]
  cases bankSend w.bank s w.self funds with
  | none => exact ⟨_, rfl, .inr rfl⟩
  | some b =>
    refine ⟨.fundsAttached, ?_, .inl rfl⟩
    simp [runMarket, C19_hooks_refuse a _ c hf]

theorem C19_step_hook_refused_nft {w : World} {s : Nat} {funds : List Coin} (a : RawAddr) (b : Nat)
    (c : Option Inner) (hf : funds ≠ []) :
    ∃ e, step w (.exec s funds (.receiveNft a b c)) = (w, .fail e) ∧
      (e = .fundsAttached ∨ e = .insufficient) := by
  have hne : funds.isEmpty = false := by cases funds <;> simp_all
  simp only [step, stepF, hne]
  cases bankSend w.bank s w.self funds with
  | none => exact ⟨_, rfl, .inr rfl⟩
  | some b =>
    refine ⟨.fundsAttached, ?_, .inl rfl⟩
    simp [runMarket, C19_hooks_refuse_nft a _ c hf]

/-- A message sent without coins never costs its sender anything, whatever its kind and
    outcome: the messages a handler emits are paid by the marketplace (`dispatch1_debits_self`). -/
theorem C19_no_debit_nofunds (fail : Nat → Bool) {w : World} {s : Nat} (msg : ExecMsg)
    (hs : s ≠ w.self) : NoDebit s w (stepF fail w (.exec s [] msg)).1 := by
  rcases stepF_market_full (fail := fail) (w := w) (op := .exec s [] msg) rfl with
    ⟨e, h⟩ | ⟨w1, m', msgs, w2, hd, _, hdd, h⟩
  · rw [h]; exact NoDebit.refl _ _
  · rw [h]
    simp only [Op.deposit, List.isEmpty_nil, if_true, Except.ok.injEq] at hd
    subst hd
    have h2 : NoDebit s { w with mkt := m' } w2 := dispatchAll_noDebit hdd hs
    exact ⟨h2.bank, h2.cw20, h2.nft⟩

/-- "Apart from creating or topping up a listing or bucket, no marketplace message ever reduces
    its sender's balances": a successful non-deposit transaction — whatever was attached to it —
    leaves every native balance, every CW20 balance and every NFT of its sender at least where
    it was.  (`s ≠ w.self`: the marketplace contract itself never originates a transaction.) -/
theorem C19_no_debit {w : World} {s : Nat} {funds : List Coin} {msg : ExecMsg} (hs : s ≠ w.self)
    (hk : msg.takesCoins = false) (hok : (step w (.exec s funds msg)).2.ok = true) :
    (∀ d, lget (step w (.exec s funds msg)).1.bank (s, d) ≥ lget w.bank (s, d)) ∧
    (∀ t, lget (step w (.exec s funds msg)).1.cw20 (t, s) ≥ lget w.cw20 (t, s)) ∧
    (∀ k, alookup k w.nft = some s → alookup k (step w (.exec s funds msg)).1.nft = some s) := by
  cases funds with
  | cons a t =>
    obtain ⟨e, h, _⟩ := C19_step_refused (w := w) (s := s) (funds := a :: t) (msg := msg)
      (by simp) hk
    rw [h] at hok; cases hok
  | nil =>
    have h := C19_no_debit_nofunds noFault (w := w) msg hs
    exact ⟨h.bank, h.cw20, h.nft⟩

/-- The same for *every* kind of message sent without coins (a deposit message without coins is
    refused by `normalized_check`, a hook call moves no coins of the caller). -/
theorem C19_no_debit_any {w : World} {s : Nat} (msg : ExecMsg) (hs : s ≠ w.self) :
    (∀ d, lget (step w (.exec s [] msg)).1.bank (s, d) ≥ lget w.bank (s, d)) ∧
    (∀ t, lget (step w (.exec s [] msg)).1.cw20 (t, s) ≥ lget w.cw20 (t, s)) ∧
    (∀ k, alookup k w.nft = some s → alookup k (step w (.exec s [] msg)).1.nft = some s) := by
  have h := C19_no_debit_nofunds noFault (w := w) msg hs
  exact ⟨h.bank, h.cw20, h.nft⟩

/-! ### non-vacuity -/

-- seller 1 has listing 7 (1000 of denom 1, preparing); the marketplace (100) holds the goods;
-- seller 1 has 50 of denom 1 left in the wallet
private def exL : Listing :=
  { creator := 1, id := 7, finalizedAt := none, expiresAt := none, status := .preparing,
    claimant := none, whitelist := none, forSale := ⟨[⟨1, 1000⟩], [], []⟩,
    ask := ⟨[⟨2, 2000⟩], [], []⟩, fee := none }

private def exW : World :=
  { self := 100, pool := 101, regAddr := 102, junoD := 1, usdcD := 2, nowNs := 5, height := 1,
    mkt := { listings := [((1, 7), exL)], buckets := [], listingUsed := [7, 0], bucketUsed := [0],
             feeKind := .juno, feeSince := 0, registry := some 102 },
    reg := [], bank := [((100, 1), 1000), ((1, 1), 50)], cw20 := [], nft := [], contracts := [] }

-- a finalize with 5 coins attached is refused (with and without the coins being available) …
example : (step exW (.exec 1 [⟨1, 5⟩] (.finalize 7 600))).2.ok = false := by decide
example : (step exW (.exec 1 [⟨1, 5⟩] (.finalize 7 600))).2.err = some .fundsAttached := by decide
example : (step exW (.exec 1 [⟨1, 51⟩] (.finalize 7 600))).2.err = some .insufficient := by decide
-- … and the sender still has the 50
example : lget (step exW (.exec 1 [⟨1, 5⟩] (.finalize 7 600))).1.bank (1, 1) = 50 := by decide
-- the same finalize without coins succeeds, as does a delete (which pays the goods back)
example : (step exW (.exec 1 [] (.finalize 7 600))).2.ok = true := by decide
example : (step exW (.exec 1 [] (.deleteListing 7))).2.ok = true := by decide
example : lget (step exW (.exec 1 [] (.deleteListing 7))).1.bank (1, 1) = 1050 := by decide
example : (1 : Nat) ≠ exW.self := by decide
-- a failing transaction of another kind (hypothesis of `C19_failed_noop`)
example : (stepF noFault exW (.send20 3 1 5 none)).2.ok = false := by decide
example : (stepF (fun _ => true) exW (.exec 1 [] (.deleteListing 7))).2.ok = false := by decide

/-! ## axioms -/

#print axioms C19_kinds
#print axioms C19_deposit_kinds
#print axioms C19_refused
#print axioms C19_hooks_refuse
#print axioms C19_hooks_refuse_nft
#print axioms C19_failed_noop
#print axioms C19_failed_assets
#print axioms C19_step_refused
#print axioms C19_step_hook_refused
#print axioms C19_step_hook_refused_nft
#print axioms C19_no_debit_nofunds
#print axioms C19_no_debit
#print axioms C19_no_debit_any

end Fuzion
