/-
  Fuzion.Props.C08Reach — C08 ("A finalized listing is an immutable, binding offer until it
  expires") for every state reached from a freshly instantiated marketplace.

  Property text (C08):  The owner of a listing still in preparation can finalize it for exactly the
  lifetimes between 600 and 1209600 seconds (bounds included); afterwards the listing's goods,
  ask, whitelist and expiration never change and the seller cannot take it back before the
  expiration time.  A listing's status only moves forward (preparing, finalized, sold, withdrawn;
  or deleted while preparing or once expired): it is never reopened, re-finalized, re-priced or
  extended.

  Props/C08.lean and Props/C08World.lean prove the theorems for any market record satisfying the
  id invariant `IdsInv` (and, where a record's life-cycle fields matter, `WFInv` / `wfListing`).
  Here these hypotheses are discharged from reachability: `w0.mkt = instantiate t r` and the state
  is `run w0 ops` for an arbitrary operation list `ops` (`C09_reach`, `C12_reach` through
  `closed_ids`, `closed_wf`, `closed_wfListing`).  What remains are hypotheses about the *input*:
  which listing is looked at, which message was accepted, the block time.  Nothing about the
  initial world other than its marketplace record is assumed — except in
  `C08_delete_step_iff_reach` / `C08_delete_step_effect_reach`, whose "the delete succeeds once
  expired" half needs the chain to deliver the goods, i.e. the accounting invariant C01: there the
  initial world is a deployment (`Deployed`, Props/C01Closed.lean) and the history contains no
  operation signed by the marketplace and no forged hook call.

  Three theorems come out stronger than a mere restatement because the life-cycle fields of a
  reached record are consistent (C12): `C08_delete_iff_reach` ("deleted while preparing or once
  expired", in terms of the status), `C08_binding_reach` (every sender, the record named by its
  id), `C08_gone_forever_reach` (the "id is logged as used" hypothesis is discharged from the
  history).  `C08_finalize_spec`, `C08_finalize_iff`, `C08_finalize_effect`,
  `C08_owner_edits_refused`, `C08_run_gone` have no invariant hypothesis and are not restated.
-/
import Fuzion.Props.C08
import Fuzion.Props.C08Closed
import Fuzion.Props.C08World
import Fuzion.Props.C07Closed
import Fuzion.Lemmas.ReachLemmas
namespace Fuzion

/-! ### sample reachable states for the non-vacuity examples

Prefixes of the sample history `AcctEx.ops` from the sample deployment `AcctEx.w0`
(Lemmas/AcctLemmas.lean; the clock starts at 100 s): seller 1 creates listing 3 (1000 of denom 1
for 2000 of denom 2), adds 400 of token 50 and NFT (60, 7) [`wPrep`], finalizes it for 600 s — it
expires at 700 s [`wFin`]; buyer 2 fills bucket 8, the registry entry is updated [`wBkt`]; buyer 2
buys [`wSold`], time passes, buyer 2 withdraws the goods [`wGone`].  `wExp` is `wFin` 600 s later:
the expiration instant. -/

namespace C08REx
def opsPrep : List Op := AcctEx.ops.take 3
def opsFin : List Op := AcctEx.ops.take 4
def opsBkt : List Op := AcctEx.ops.take 6
def opsExp : List Op := AcctEx.ops.take 4 ++ [.advance (600 * NS) 0]
def opsSold : List Op := AcctEx.ops.take 7
def opsGone : List Op := AcctEx.ops.take 9
def wPrep : World := run AcctEx.w0 opsPrep
def wFin : World := run AcctEx.w0 opsFin
def wBkt : World := run AcctEx.w0 opsBkt
def wExp : World := run AcctEx.w0 opsExp
def wSold : World := run AcctEx.w0 opsSold
def wGone : World := run AcctEx.w0 opsGone
end C08REx

example : AcctEx.w0.mkt = instantiate 0 (some 102) := rfl
example :
    C08REx.wPrep.mkt.listings.map (fun p => (p.1, p.2.status, p.2.expiresAt)) =
      [((1, 3), .preparing, none)] ∧
    C08REx.wFin.mkt.listings.map (fun p => (p.1, p.2.status, p.2.expiresAt)) =
      [((1, 3), .finalized, some (700 * NS))] ∧
    C08REx.wSold.mkt.listings.map (fun p => (p.1, p.2.status, p.2.expiresAt)) =
      [((2, 3), .closed, some (700 * NS))] ∧
    C08REx.wGone.mkt.listings = [] ∧
    C08REx.wFin.nowNs = 100 * NS ∧ C08REx.wExp.nowNs = 700 * NS := by decide

section
variable {w0 : World} {t : Nat} {r : Option Nat}

/-! ## 1. the offer is binding until it expires -/

/-- "(… or deleted while preparing or once expired)", in every reachable state: exact acceptance
    condition of `execute_delete_listing` in terms of the life cycle.  The delete of `s` is
    accepted iff `s` holds a listing under this id that is still **preparing**, or **finalized
    with the expiration reached** (`now ≥ expiration`).  This is `C08_delete_iff` with its
    conditions "sender = creator", "no claimant", "no expiration, or expiration reached" rewritten
    by the consistency of a reached record (C12: the record is filed under its creator; it has a
    claimant iff it is closed; it has no expiration iff it is preparing). -/
theorem C08_delete_iff_reach (h0 : w0.mkt = instantiate t r) (ops : List Op) {env : Env}
    {s id : Nat} :
    (∃ res, deleteListing (run w0 ops).mkt env s id = .ok res) ↔
      ∃ l, alookup (s, id) (run w0 ops).mkt.listings = some l ∧
        (l.status = .preparing ∨
         (l.status = .finalized ∧ ∃ e, l.expiresAt = some e ∧ e ≤ env.nowNs)) := by
  rw [C08_delete_iff]
  constructor
  · rintro ⟨l, hl, _, hc, he⟩
    refine ⟨l, hl, ?_⟩
    obtain ⟨_, _, h2, h3⟩ := reach_listing_status h0 ops (alookup_some_mem hl)
    cases hst : l.status with
    | preparing => exact .inl rfl
    | finalized =>
      refine .inr ⟨rfl, ?_⟩
      obtain ⟨⟨f, e, _, hee, _⟩, _⟩ := h2 hst
      rcases he with he | ⟨e', he', hle⟩
      · rw [hee] at he; cases he
      · exact ⟨e', he', hle⟩
    | closed => rw [(h3 hst).2] at hc; cases hc
  · rintro ⟨l, hl, hs⟩
    obtain ⟨hk, h1, h2, _⟩ := reach_listing_status h0 ops (alookup_some_mem hl)
    have hcr : s = l.creator := (Prod.mk.inj hk).1
    rcases hs with hs | ⟨hs, e, he, hle⟩
    · exact ⟨l, hl, hcr, (h1 hs).2.2.1, .inl (h1 hs).2.1⟩
    · exact ⟨l, hl, hcr, (h2 hs).2.1, .inr ⟨e, he, hle⟩⟩

/-- both sides occur: the preparing listing can be deleted at once; the finalized one (expiring at
    700 s) not at 100 s, but at 700 s; the sold one never -/
example :
    C12Ex.errOf (deleteListing C08REx.wPrep.mkt C08REx.wPrep.env 1 3) = none ∧
    C12Ex.errOf (deleteListing C08REx.wFin.mkt C08REx.wFin.env 1 3) = some .notExpired ∧
    C12Ex.errOf (deleteListing C08REx.wExp.mkt C08REx.wExp.env 1 3) = none ∧
    C12Ex.errOf (deleteListing C08REx.wSold.mkt C08REx.wSold.env 2 3) = some .hasClaimant := by
  decide

/-- "the seller cannot take it back before the expiration time", in every reachable state: while
    the block time is before the expiration of the listing stored under `id`, the delete message
    of **every** sender — the seller included — is refused.  (`C08_binding` for the holder and
    `C08_binding_others` for everybody else; `IdsInv` discharged by `C09_reach`.) -/
theorem C08_binding_reach (h0 : w0.mkt = instantiate t r) (ops : List Op) {env : Env}
    {id e : Nat} {k : Nat × Nat} {l : Listing}
    (hf : findById id (run w0 ops).mkt.listings = some (k, l)) (he : l.expiresAt = some e)
    (hnow : env.nowNs < e) (s : Nat) :
    ∃ err, deleteListing (run w0 ops).mkt env s id = .error err := by
  by_cases hs : s = l.creator
  · obtain ⟨_, _, _, hal, _⟩ := reach_find h0 ops hf
    rw [← hs] at hal
    exact C08_binding hal he hnow
  · exact ⟨_, C08_binding_others (closed_ids h0 ops) hf hs⟩

/-- non-vacuity of `C08_binding_reach`: listing 3 of `wFin` expires at 700 s and it is 100 s;
    computed: refused for the seller one nanosecond before the expiration, accepted at it -/
example : (findById 3 C08REx.wFin.mkt.listings).map (fun p => p.2.expiresAt) = some (some (700 * NS)) ∧
    C08REx.wFin.env.nowNs < 700 * NS ∧
    C12Ex.errOf (deleteListing C08REx.wFin.mkt { C08REx.wFin.env with nowNs := 700 * NS - 1 } 1 3) =
      some .notExpired ∧
    C12Ex.errOf (deleteListing C08REx.wFin.mkt { C08REx.wFin.env with nowNs := 700 * NS } 1 3) =
      none := by decide

/-- "… and so is everybody else's, at any time", in every reachable state: nobody but the creator
    has a record under this id. -/
theorem C08_binding_others_reach (h0 : w0.mkt = instantiate t r) (ops : List Op) {env : Env}
    {s id : Nat} {k : Nat × Nat} {l : Listing}
    (hf : findById id (run w0 ops).mkt.listings = some (k, l)) (hs : s ≠ l.creator) :
    deleteListing (run w0 ops).mkt env s id = .error .notFound :=
  C08_binding_others (closed_ids h0 ops) hf hs

example : (findById 3 C08REx.wFin.mkt.listings).map (fun p => p.2.creator) = some 1 ∧ (9 : Nat) ≠ 1 := by
  decide

/-! ## 2. frame: nobody can change a listing that has left the preparing state -/

/-- "afterwards the listing's goods, ask, whitelist and expiration never change … A listing's
    status only moves forward", in every reachable state: for a listing that is no longer
    preparing, whatever message `msg` whichever account `s` sends (forged receive hooks
    included), if it is accepted then afterwards the listing is either gone, or still found under
    its id with the same ask, whitelist, expiration, finalization stamp and id, a status that is
    not lower — and it is either the very same record under the very same key, or `msg` was a
    purchase of this finalized listing, which closes it and re-files it under the buyer `s`. -/
theorem C08_frame_reach (h0 : w0.mkt = instantiate t r) (ops : List Op) {m' : Market} {env : Env}
    {s : Nat} {f : List Coin} {msg : ExecMsg} {out : List OutMsg} {lid : Nat} {k : Nat × Nat}
    {l : Listing} (hfind : findById lid (run w0 ops).mkt.listings = some (k, l))
    (hst : l.status ≠ .preparing) (hx : execute (run w0 ops).mkt env s f msg = .ok (m', out)) :
    findById lid m'.listings = none ∨
    ∃ k' l', findById lid m'.listings = some (k', l') ∧ l'.ask = l.ask ∧
      l'.whitelist = l.whitelist ∧ l'.expiresAt = l.expiresAt ∧ l'.finalizedAt = l.finalizedAt ∧
      l'.id = l.id ∧ statusRank' l.status ≤ statusRank' l'.status ∧
      ((k' = k ∧ l' = l) ∨
       ((∃ bid, msg = .buy lid bid) ∧ l.status = .finalized ∧ l'.status = .closed ∧
         k' = (s, lid) ∧ l'.creator = s ∧ l'.claimant = some s)) :=
  C08_frame (closed_ids h0 ops) hfind hst hx

/-- non-vacuity of `C08_frame_reach`: listing 3 of `wBkt` is finalized; the purchase by 2, a
    stranger's bucket deposit and (at the expiration) the owner's delete are accepted messages -/
example : (findById 3 C08REx.wBkt.mkt.listings).map (fun p => decide (p.2.status ≠ .preparing)) =
      some true ∧
    C12Ex.errOf (execute C08REx.wBkt.mkt C08REx.wBkt.env 2 [] (.buy 3 8)) = none ∧
    C12Ex.errOf (execute C08REx.wBkt.mkt C08REx.wBkt.env 9 [⟨2, 5⟩] (.createBucket 4)) = none ∧
    C12Ex.errOf (execute C08REx.wExp.mkt C08REx.wExp.env 1 [] (.deleteListing 3)) = none := by
  decide

/-- the goods of a non-preparing listing of a reachable state change only in a purchase of it -/
theorem C08_goods_frame_reach (h0 : w0.mkt = instantiate t r) (ops : List Op) {m' : Market}
    {env : Env} {s : Nat} {f : List Coin} {msg : ExecMsg} {out : List OutMsg} {lid : Nat}
    {k k' : Nat × Nat} {l l' : Listing}
    (hfind : findById lid (run w0 ops).mkt.listings = some (k, l)) (hst : l.status ≠ .preparing)
    (hx : execute (run w0 ops).mkt env s f msg = .ok (m', out))
    (hfind' : findById lid m'.listings = some (k', l')) (hnb : ∀ bid, msg ≠ .buy lid bid) :
    k' = k ∧ l' = l :=
  C08_goods_frame (closed_ids h0 ops) hfind hst hx hfind' hnb

/-- non-vacuity of `C08_goods_frame_reach`: a bucket deposit of account 2 is accepted, is not a
    purchase, and listing 3 is still there afterwards -/
example : C12Ex.errOf (execute C08REx.wBkt.mkt C08REx.wBkt.env 2 [⟨2, 5⟩] (.createBucket 4)) = none ∧
    (∀ bid, ExecMsg.createBucket 4 ≠ .buy 3 bid) ∧
    (findById 3 (step C08REx.wBkt (.exec 2 [⟨2, 5⟩] (.createBucket 4))).1.mkt.listings).isSome =
      true := ⟨by decide, fun _ h => (by cases h), by decide⟩

/-- "A listing's status only moves forward (preparing, finalized, sold …): it is never
    reopened", in every reachable state: for *any* live listing, preparing ones included, the
    status found under its id after an accepted message is not lower than before. -/
theorem C08_status_forward_reach (h0 : w0.mkt = instantiate t r) (ops : List Op) {m' : Market}
    {env : Env} {s : Nat} {f : List Coin} {msg : ExecMsg} {out : List OutMsg} {lid : Nat}
    {k k' : Nat × Nat} {l l' : Listing}
    (hfind : findById lid (run w0 ops).mkt.listings = some (k, l))
    (hx : execute (run w0 ops).mkt env s f msg = .ok (m', out))
    (hfind' : findById lid m'.listings = some (k', l')) :
    statusRank' l.status ≤ statusRank' l'.status :=
  C08_status_forward (closed_ids h0 ops) hfind hx hfind'

/-- non-vacuity of `C08_status_forward_reach`: the owner's finalize of the preparing listing 3 -/
example : (findById 3 C08REx.wPrep.mkt.listings).isSome = true ∧
    C12Ex.errOf (execute C08REx.wPrep.mkt C08REx.wPrep.env 1 [] (.finalize 3 600)) = none ∧
    (findById 3 (step C08REx.wPrep (.exec 1 [] (.finalize 3 600))).1.mkt.listings).map
      (fun p => p.2.status) = some .finalized := by decide

/-- "(preparing, finalized, sold, withdrawn; or deleted while preparing or once expired)", in
    every reachable state: the complete one-message transition relation of the listing stored
    under `lid`.  It stays as it is; or it is preparing and its owner edits it (possibly
    finalizing it); or its owner deletes it — unclaimed and with no expiration or an expiration
    that has been reached; or it is finalized, unclaimed, not past its expiration and `s` buys it;
    or it is sold and its claimant withdraws it. -/
theorem C08_transitions_reach (h0 : w0.mkt = instantiate t r) (ops : List Op) {m' : Market}
    {env : Env} {s : Nat} {f : List Coin} {msg : ExecMsg} {out : List OutMsg} {lid : Nat}
    {k : Nat × Nat} {l : Listing} (hfind : findById lid (run w0 ops).mkt.listings = some (k, l))
    (hx : execute (run w0 ops).mkt env s f msg = .ok (m', out)) :
    findById lid m'.listings = some (k, l) ∨
    (l.status = .preparing ∧ actor msg s = l.creator ∧ ∃ l', findById lid m'.listings = some (k, l') ∧
      (l'.status = .preparing ∨ l'.status = .finalized) ∧ l'.creator = l.creator) ∨
    (msg = .deleteListing lid ∧ s = l.creator ∧ l.claimant = none ∧
      (∀ e, l.expiresAt = some e → e ≤ env.nowNs) ∧ findById lid m'.listings = none) ∨
    (l.status = .finalized ∧ l.claimant = none ∧ (∀ e, l.expiresAt = some e → env.nowNs ≤ e) ∧
      ∃ bid l', msg = .buy lid bid ∧ findById lid m'.listings = some ((s, lid), l') ∧
        l'.status = .closed ∧ l'.claimant = some s) ∨
    (l.status = .closed ∧ msg = .withdrawPurchased lid ∧ l.claimant = some s ∧ s = l.creator ∧
      findById lid m'.listings = none) :=
  C08_transitions (closed_ids h0 ops) hfind hx

/-- non-vacuity of `C08_transitions_reach`: every kind of transition occurs from a reached state —
    an edit and the finalization of the preparing listing, the delete at the expiration, the
    purchase, the buyer's withdrawal -/
example :
    C12Ex.errOf (execute C08REx.wPrep.mkt C08REx.wPrep.env 1 [] (.changeAsk 3 ⟨[⟨2, 9⟩], [], []⟩)) = none ∧
    C12Ex.errOf (execute C08REx.wPrep.mkt C08REx.wPrep.env 1 [] (.finalize 3 600)) = none ∧
    C12Ex.errOf (execute C08REx.wExp.mkt C08REx.wExp.env 1 [] (.deleteListing 3)) = none ∧
    C12Ex.errOf (execute C08REx.wBkt.mkt C08REx.wBkt.env 2 [] (.buy 3 8)) = none ∧
    C12Ex.errOf (execute C08REx.wSold.mkt C08REx.wSold.env 2 [] (.withdrawPurchased 3)) = none := by
  decide

/-! ## 3. how a listing disappears -/

/-- "the seller cannot take it back before the expiration time … or deleted … once expired", in
    every reachable state: a finalized listing disappears only by its owner's delete once the
    expiration has been reached, a sold one only by its buyer's withdrawal.  (`IdsInv` and the
    well-formedness `wfListing` of the record discharged by `C09_reach` / `C12_reach`.) -/
theorem C08_when_removed_reach (h0 : w0.mkt = instantiate t r) (ops : List Op) {m' : Market}
    {env : Env} {s : Nat} {f : List Coin} {msg : ExecMsg} {out : List OutMsg} {lid : Nat}
    {k : Nat × Nat} {l : Listing} (hfind : findById lid (run w0 ops).mkt.listings = some (k, l))
    (hst : l.status ≠ .preparing) (hx : execute (run w0 ops).mkt env s f msg = .ok (m', out))
    (hgone : findById lid m'.listings = none) :
    (l.status = .finalized ∧ (∀ e, l.expiresAt = some e → e ≤ env.nowNs) ∧
      msg = .deleteListing lid ∧ s = l.creator) ∨
    (l.status = .closed ∧ msg = .withdrawPurchased lid ∧ l.claimant = some s) :=
  C08_when_removed (closed_ids h0 ops) (reach_find h0 ops hfind).2.2.2.2 hfind hst hx hgone

/-- non-vacuity of `C08_when_removed_reach`: the owner's delete at the expiration removes the
    finalized listing; the buyer's withdrawal removes the sold one -/
example :
    findById 3 (step C08REx.wExp (.exec 1 [] (.deleteListing 3))).1.mkt.listings = none ∧
    C12Ex.errOf (execute C08REx.wExp.mkt C08REx.wExp.env 1 [] (.deleteListing 3)) = none ∧
    findById 3 (step C08REx.wSold (.exec 2 [] (.withdrawPurchased 3))).1.mkt.listings = none ∧
    C12Ex.errOf (execute C08REx.wSold.mkt C08REx.wSold.env 2 [] (.withdrawPurchased 3)) = none := by
  decide

/-- "Gone is forever / never reopened", along every history from instantiation: if the id had a
    live listing at some point (`ops₁`) and has none at a later point (`ops₁ ++ ops₂`), then
    whatever message is accepted there, it still has none afterwards and stays logged as used.
    (The hypothesis `lid ∈ listingUsed` of `C08_gone_forever` is discharged: a live id is logged,
    `C09_reach`, and the log only grows.) -/
theorem C08_gone_forever_reach (h0 : w0.mkt = instantiate t r) (ops₁ ops₂ : List Op) {m' : Market}
    {env : Env} {s : Nat} {f : List Coin} {msg : ExecMsg} {out : List OutMsg} {lid : Nat}
    {k : Nat × Nat} {l : Listing} (hfind : findById lid (run w0 ops₁).mkt.listings = some (k, l))
    (hnone : findById lid (run w0 (ops₁ ++ ops₂)).mkt.listings = none)
    (hx : execute (run w0 (ops₁ ++ ops₂)).mkt env s f msg = .ok (m', out)) :
    findById lid m'.listings = none ∧ lid ∈ m'.listingUsed :=
  C08_gone_forever hnone (reach_found_used h0 ops₁ ops₂ hfind) hx

/-- non-vacuity of `C08_gone_forever_reach`: listing 3 is live after four operations and gone
    after nine; creating it again is refused there, creating listing 4 is accepted -/
example : (findById 3 (run AcctEx.w0 (AcctEx.ops.take 4)).mkt.listings).isSome = true ∧
    findById 3 (run AcctEx.w0 (AcctEx.ops.take 4 ++ (AcctEx.ops.drop 4).take 5)).mkt.listings = none ∧
    C12Ex.errOf (execute C08REx.wGone.mkt C08REx.wGone.env 1 [⟨1, 5⟩]
      (.createListing 3 ⟨⟨[⟨2, 1⟩], [], []⟩, none⟩)) = some .idUsed ∧
    C12Ex.errOf (execute C08REx.wGone.mkt C08REx.wGone.env 1 [⟨1, 5⟩]
      (.createListing 4 ⟨⟨[⟨2, 1⟩], [], []⟩, none⟩)) = none := by decide

/-- … and along whole histories: once a listing that was live at some point of a history from
    instantiation is gone at a later point, it is gone at every point after that. -/
theorem C08_run_gone_stays_reach (h0 : w0.mkt = instantiate t r) (ops₁ ops₂ ops₃ : List Op)
    {lid : Nat} {k : Nat × Nat} {l : Listing}
    (hfind : findById lid (run w0 ops₁).mkt.listings = some (k, l))
    (hgone : findById lid (run w0 (ops₁ ++ ops₂)).mkt.listings = none) :
    findById lid (run w0 (ops₁ ++ ops₂ ++ ops₃)).mkt.listings = none ∧
    lid ∈ (run w0 (ops₁ ++ ops₂ ++ ops₃)).mkt.listingUsed := by
  rw [run_append w0 (ops₁ ++ ops₂) ops₃]
  exact C08_run_gone hgone (reach_found_used h0 ops₁ ops₂ hfind) ops₃

/-- non-vacuity of `C08_run_gone_stays_reach` (same history), computed with a later attempt to
    re-create the id -/
example : findById 3 (run AcctEx.w0 (AcctEx.ops.take 4 ++ (AcctEx.ops.drop 4).take 5 ++
    [.exec 1 [⟨1, 5⟩] (.createListing 3 ⟨⟨[⟨2, 1⟩], [], []⟩, none⟩)])).mkt.listings = none := by
  decide

/-! ## 4. world level -/

/-- `C08_frame_reach` for one transaction `step (run w0 ops) op` of any kind (marketplace
    messages of any sender, CW20 / CW721 sends, registry messages, admin changes, the passage of
    time). -/
theorem C08_step_frame_reach (h0 : w0.mkt = instantiate t r) (ops : List Op) {lid : Nat}
    {k : Nat × Nat} {l : Listing} (op : Op)
    (hfind : findById lid (run w0 ops).mkt.listings = some (k, l)) (hst : l.status ≠ .preparing) :
    findById lid (step (run w0 ops) op).1.mkt.listings = none ∨
    ∃ k' l', findById lid (step (run w0 ops) op).1.mkt.listings = some (k', l') ∧ l'.ask = l.ask ∧
      l'.whitelist = l.whitelist ∧ l'.expiresAt = l.expiresAt ∧ l'.finalizedAt = l.finalizedAt ∧
      l'.id = l.id ∧ statusRank' l.status ≤ statusRank' l'.status ∧
      ((k' = k ∧ l' = l) ∨
       ((∃ c f bid, op = .exec c f (.buy lid bid) ∧ k' = (c, lid) ∧ l'.creator = c ∧
           l'.claimant = some c) ∧ l.status = .finalized ∧ l'.status = .closed)) :=
  C08_step_frame op (closed_ids h0 ops) hfind hst

example : (findById 3 C08REx.wBkt.mkt.listings).map (fun p => decide (p.2.status ≠ .preparing)) =
    some true := by decide

/-- "the seller cannot take it back before the expiration time", as transactions from any
    reachable state: while the clock is before the expiration of listing `lid`, a delete
    transaction of *any* account fails and leaves the world as it was. -/
theorem C08_step_binding_reach (h0 : w0.mkt = instantiate t r) (ops : List Op) {lid e : Nat}
    {k : Nat × Nat} {l : Listing} (s : Nat) (f : List Coin)
    (hfind : findById lid (run w0 ops).mkt.listings = some (k, l)) (he : l.expiresAt = some e)
    (hnow : (run w0 ops).nowNs < e) :
    (step (run w0 ops) (.exec s f (.deleteListing lid))).2.ok = false ∧
    (step (run w0 ops) (.exec s f (.deleteListing lid))).1 = run w0 ops :=
  C08_step_binding s f (closed_ids h0 ops) hfind he hnow

/-- non-vacuity of `C08_step_binding_reach`: at 100 s listing 3 (expiring at 700 s) cannot be
    deleted by its seller, while a purchase is possible; at 700 s the delete succeeds -/
example : (findById 3 C08REx.wBkt.mkt.listings).map (fun p => p.2.expiresAt) = some (some (700 * NS)) ∧
    C08REx.wBkt.nowNs < 700 * NS ∧
    (step C08REx.wBkt (.exec 1 [] (.deleteListing 3))).2.ok = false ∧
    (step C08REx.wBkt (.exec 2 [] (.buy 3 8))).2.ok = true ∧
    (step C08REx.wExp (.exec 1 [] (.deleteListing 3))).2.ok = true := by decide

/-- `C08_when_removed_reach` for one transaction from any reachable state: a finalized listing
    disappears only through a successful `deleteListing` transaction of its creator at a block
    time at or after its expiration; a sold one only through a `withdrawPurchased` transaction of
    its claimant. -/
theorem C08_step_when_removed_reach (h0 : w0.mkt = instantiate t r) (ops : List Op) {lid : Nat}
    {k : Nat × Nat} {l : Listing} (op : Op)
    (hfind : findById lid (run w0 ops).mkt.listings = some (k, l)) (hst : l.status ≠ .preparing)
    (hgone : findById lid (step (run w0 ops) op).1.mkt.listings = none) :
    (l.status = .finalized ∧ (∀ e, l.expiresAt = some e → e ≤ (run w0 ops).nowNs) ∧
      ∃ f, op = .exec l.creator f (.deleteListing lid)) ∨
    (l.status = .closed ∧ ∃ c f, op = .exec c f (.withdrawPurchased lid) ∧ l.claimant = some c) :=
  C08_step_when_removed op (closed_ids h0 ops) (reach_find h0 ops hfind).2.2.2.2 hfind hst hgone

example : findById 3 (step C08REx.wExp (.exec 1 [] (.deleteListing 3))).1.mkt.listings = none ∧
    findById 3 (step C08REx.wSold (.exec 2 [] (.withdrawPurchased 3))).1.mkt.listings = none := by
  decide

/-- "afterwards the listing's goods, ask, whitelist and expiration never change … never reopened,
    re-finalized, re-priced or extended", along every history from instantiation: for a listing
    that is not preparing after `ops₁`, after any continuation `ops₂` the id either has no live
    listing (and then never has one again, `C08_run_gone_stays_reach`) or still carries a
    non-preparing listing with the same ask, whitelist, expiration and finalization stamp and a
    status that is not lower. -/
theorem C08_run_monotone_reach (h0 : w0.mkt = instantiate t r) (ops₁ ops₂ : List Op) {lid : Nat}
    {k : Nat × Nat} {l : Listing} (hfind : findById lid (run w0 ops₁).mkt.listings = some (k, l))
    (hst : l.status ≠ .preparing) :
    findById lid (run w0 (ops₁ ++ ops₂)).mkt.listings = none ∨
    ∃ k' l', findById lid (run w0 (ops₁ ++ ops₂)).mkt.listings = some (k', l') ∧
      l'.status ≠ .preparing ∧ l'.ask = l.ask ∧ l'.whitelist = l.whitelist ∧
      l'.expiresAt = l.expiresAt ∧ l'.finalizedAt = l.finalizedAt ∧
      statusRank' l.status ≤ statusRank' l'.status := by
  rw [run_append]
  exact C08_run_monotone_closed (closed_ids h0 ops₁) hfind hst ops₂

/-- non-vacuity of `C08_run_monotone_reach`: listing 3 is finalized after four operations;
    computed: three operations later it is sold and still shows the published terms -/
example : (findById 3 (run AcctEx.w0 (AcctEx.ops.take 4)).mkt.listings).map
      (fun p => (p.2.status, p.2.ask, p.2.expiresAt)) =
      some (.finalized, ⟨[⟨2, 2000⟩], [], []⟩, some (700 * NS)) ∧
    (findById 3 (run AcctEx.w0 (AcctEx.ops.take 4 ++ (AcctEx.ops.drop 4).take 3)).mkt.listings).map
      (fun p => (p.2.status, p.2.ask, p.2.expiresAt)) =
      some (.closed, ⟨[⟨2, 2000⟩], [], []⟩, some (700 * NS)) := by decide

/-! ## 5. finalize and delete as transactions (Props/C08World.lean) -/

/-- **"The owner of a listing still in preparation can finalize it for exactly the lifetimes
    between 600 and 1209600 seconds (bounds included)"**, for the transaction, in every reachable
    state: the `Finalize` transaction of the creator of a stored preparing listing succeeds iff
    `MIN_LIFE ≤ secs ≤ TWO_WEEKS`.  (`IdsInv`, `WFInv` discharged.) -/
theorem C08_finalize_step_iff_reach (h0 : w0.mkt = instantiate t r) (ops : List Op)
    {k : Nat × Nat} {l : Listing} (secs : Nat) (hm : (k, l) ∈ (run w0 ops).mkt.listings)
    (hs : l.status = .preparing) :
    (step (run w0 ops) (.exec l.creator [] (.finalize l.id secs))).2.ok = true ↔
      MIN_LIFE ≤ secs ∧ secs ≤ TWO_WEEKS :=
  C08_finalize_step_iff secs (closed_ids h0 ops) (closed_wf h0 ops) hm hs

/-- the same with the literals spelled out -/
theorem C08_finalize_step_iff_lit_reach (h0 : w0.mkt = instantiate t r) (ops : List Op)
    {k : Nat × Nat} {l : Listing} (secs : Nat) (hm : (k, l) ∈ (run w0 ops).mkt.listings)
    (hs : l.status = .preparing) :
    (step (run w0 ops) (.exec l.creator [] (.finalize l.id secs))).2.ok = true ↔
      600 ≤ secs ∧ secs ≤ 1209600 :=
  C08_finalize_step_iff_reach h0 ops secs hm hs

/-- non-vacuity of `C08_finalize_step_iff_reach`: `wPrep` holds the preparing listing 3 of
    account 1; 600 and 1209600 seconds are accepted, 599 and 1209601 are refused -/
example : (∃ p ∈ C08REx.wPrep.mkt.listings, p.2.status = .preparing ∧ p.2.creator = 1 ∧ p.2.id = 3) ∧
    (step C08REx.wPrep (.exec 1 [] (.finalize 3 600))).2.ok = true ∧
    (step C08REx.wPrep (.exec 1 [] (.finalize 3 1209600))).2.ok = true ∧
    (step C08REx.wPrep (.exec 1 [] (.finalize 3 599))).2.ok = false ∧
    (step C08REx.wPrep (.exec 1 [] (.finalize 3 1209601))).2.ok = false := by decide

/-- **The resulting world** of a finalize accepted in a reachable state: the transaction returns
    the old world with exactly this record replaced — stamped with the block time, `expiresAt =
    now + secs·10⁹`, status finalized; goods, ask, whitelist, creator, id untouched — no message
    is emitted and no ledger, no other record, no other field of the world changes. -/
theorem C08_finalize_step_effect_reach (h0 : w0.mkt = instantiate t r) (ops : List Op)
    {k : Nat × Nat} {l : Listing} {secs : Nat} (hm : (k, l) ∈ (run w0 ops).mkt.listings)
    (hs : l.status = .preparing) (h1 : MIN_LIFE ≤ secs) (h2 : secs ≤ TWO_WEEKS) :
    step (run w0 ops) (.exec l.creator [] (.finalize l.id secs)) =
      ({ run w0 ops with mkt := { (run w0 ops).mkt with listings :=
          (ainsert k { l with finalizedAt := some (run w0 ops).nowNs,
                              expiresAt := some ((run w0 ops).nowNs + secs * NS),
                              status := .finalized } (run w0 ops).mkt.listings) } },
       ⟨true, none, []⟩) :=
  C08_finalize_step_effect (closed_ids h0 ops) (closed_wf h0 ops) hm hs h1 h2

/-- … in particular "only that listing changes": afterwards the listing is found under its key
    with `expiresAt = some (now + secs·10⁹)`, and every other key of the listing table, the whole
    bucket table, the id logs and all ledgers are as before. -/
theorem C08_finalize_step_only_reach (h0 : w0.mkt = instantiate t r) (ops : List Op)
    {k : Nat × Nat} {l : Listing} {secs : Nat} (hm : (k, l) ∈ (run w0 ops).mkt.listings)
    (hs : l.status = .preparing) (h1 : MIN_LIFE ≤ secs) (h2 : secs ≤ TWO_WEEKS) :
    let w := run w0 ops
    let w' := (step w (.exec l.creator [] (.finalize l.id secs))).1
    (∃ l', alookup k w'.mkt.listings = some l' ∧ l'.status = .finalized ∧
      l'.finalizedAt = some w.nowNs ∧ l'.expiresAt = some (w.nowNs + secs * NS) ∧
      l'.forSale = l.forSale ∧ l'.ask = l.ask ∧ l'.whitelist = l.whitelist ∧
      l'.creator = l.creator ∧ l'.id = l.id ∧ l'.claimant = l.claimant ∧ l'.fee = l.fee) ∧
    (∀ k', k' ≠ k → alookup k' w'.mkt.listings = alookup k' w.mkt.listings) ∧
    w'.mkt.buckets = w.mkt.buckets ∧ w'.mkt.listingUsed = w.mkt.listingUsed ∧
    w'.mkt.bucketUsed = w.mkt.bucketUsed ∧ w'.bank = w.bank ∧ w'.cw20 = w.cw20 ∧ w'.nft = w.nft ∧
    w'.nowNs = w.nowNs :=
  C08_finalize_step_only (closed_ids h0 ops) (closed_wf h0 ops) hm hs h1 h2

/-- non-vacuity of `C08_finalize_step_effect_reach` / `_only_reach`, with `secs = 600`; computed:
    the finalized listing expires at 100 s + 600 s -/
example : (∃ p ∈ C08REx.wPrep.mkt.listings, p.2.status = .preparing) ∧ MIN_LIFE ≤ 600 ∧
    600 ≤ TWO_WEEKS ∧
    (step C08REx.wPrep (.exec 1 [] (.finalize 3 600))).1.mkt.listings.map
      (fun p => (p.1, p.2.status, p.2.finalizedAt, p.2.expiresAt)) =
      [((1, 3), .finalized, some (100 * NS), some (700 * NS))] := by decide

/-- nobody but the creator can finalize a listing of a reachable state: the transaction of any
    other account naming this id is refused, whatever the lifetime -/
theorem C08_finalize_step_others_reach (h0 : w0.mkt = instantiate t r) (ops : List Op)
    {k : Nat × Nat} {l : Listing} (s secs : Nat) (hm : (k, l) ∈ (run w0 ops).mkt.listings)
    (hne : s ≠ l.creator) :
    (step (run w0 ops) (.exec s [] (.finalize l.id secs))).2.ok = false :=
  C08_finalize_step_others s secs (closed_ids h0 ops) hm hne

example : (∃ p ∈ C08REx.wPrep.mkt.listings, p.2.id = 3 ∧ 2 ≠ p.2.creator) ∧
    (step C08REx.wPrep (.exec 2 [] (.finalize 3 600))).2.ok = false := by decide

/-- a finalized listing stored in a reachable state has an expiration time — and a finalization
    stamp, not after it (well-formedness, C12) -/
theorem C08_finalized_has_expiry_reach (h0 : w0.mkt = instantiate t r) (ops : List Op)
    {k : Nat × Nat} {l : Listing} (hm : (k, l) ∈ (run w0 ops).mkt.listings)
    (hs : l.status = .finalized) :
    ∃ f e, l.finalizedAt = some f ∧ l.expiresAt = some e ∧ f ≤ e :=
  ((reach_listing_status h0 ops hm).2.2.1 hs).1

example : ∃ p ∈ C08REx.wFin.mkt.listings, p.2.status = .finalized := by decide

/-- the refused half of "the seller cannot take it back before the expiration time", with its
    effect, in every reachable state: before the expiration the seller's delete transaction is
    refused and the world is exactly what it was -/
theorem C08_delete_step_refused_reach (h0 : w0.mkt = instantiate t r) (ops : List Op)
    {k : Nat × Nat} {l : Listing} {e : Nat} (hm : (k, l) ∈ (run w0 ops).mkt.listings)
    (he : l.expiresAt = some e) (hnow : (run w0 ops).nowNs < e) :
    (step (run w0 ops) (.exec l.creator [] (.deleteListing l.id))).2.ok = false ∧
    (step (run w0 ops) (.exec l.creator [] (.deleteListing l.id))).1 = run w0 ops :=
  C08_delete_step_refused (closed_ids h0 ops) hm he hnow

example : (∃ p ∈ C08REx.wFin.mkt.listings, p.2.expiresAt = some (700 * NS) ∧ p.2.creator = 1 ∧
      p.2.id = 3) ∧ C08REx.wFin.nowNs < 700 * NS ∧
    (step C08REx.wFin (.exec 1 [] (.deleteListing 3))).2.ok = false := by decide

end

/-! ### … from deployment

The "delete succeeds from the expiration on" half needs the chain to deliver the goods: the
marketplace must hold what it recorded (C01) and the recorded assets must be honest tokens.  Both
are run-level invariants of the *world* (`C01Inv`, `CleanRecords`), not of the marketplace record;
they hold from a deployment (`Deployed`: the marketplace holds nothing, the registry is empty,
the pool is not the marketplace) along every history without operations signed by the marketplace
and without forged hook calls (`C07_reach_run`, `Reach_deployed`). -/

/-- **"The seller cannot take it back before the expiration time"** — and can from then on, in
    every state reached from a deployment: the `DeleteListing` transaction of the creator of a
    stored finalized (unsold) listing expiring at `e` succeeds **iff** `e ≤ now`.  (`C01Inv`,
    `CleanRecords` discharged.) -/
theorem C08_delete_step_iff_reach {w0 : World} (hD : Deployed w0) (ops : List Op)
    (hops : ∀ op ∈ ops, op.avoids w0.self ∧ op.unforged) {k : Nat × Nat} {l : Listing} {e : Nat}
    (hm : (k, l) ∈ (run w0 ops).mkt.listings) (hs : l.status = .finalized)
    (he : l.expiresAt = some e) :
    (step (run w0 ops) (.exec l.creator [] (.deleteListing l.id))).2.ok = true ↔
      e ≤ (run w0 ops).nowNs :=
  C08_delete_step_iff (C07_reach_run ops (Reach_deployed hD) hops).inv
    (C07_reach_run ops (Reach_deployed hD) hops).clean hm hs he

/-- the accepted half, with its effect, in every state reached from a deployment: from the
    expiration on, the seller's delete transaction returns exactly the listing's goods to the
    seller (no fee: an unsold listing carries none), removes exactly this record and changes
    nothing but the three ledgers and the record table -/
theorem C08_delete_step_effect_reach {w0 : World} (hD : Deployed w0) (ops : List Op)
    (hops : ∀ op ∈ ops, op.avoids w0.self ∧ op.unforged) {k : Nat × Nat} {l : Listing} {e : Nat}
    (hm : (k, l) ∈ (run w0 ops).mkt.listings) (hs : l.status = .finalized)
    (he : l.expiresAt = some e) (hle : e ≤ (run w0 ops).nowNs) :
    (step (run w0 ops) (.exec l.creator [] (.deleteListing l.id))).2.msgs =
      sendTokens l.creator l.forSale ∧
    (step (run w0 ops) (.exec l.creator [] (.deleteListing l.id))).1.mkt =
      { (run w0 ops).mkt with listings := aerase k (run w0 ops).mkt.listings } ∧
    CoreEq (run w0 ops) (step (run w0 ops) (.exec l.creator [] (.deleteListing l.id))).1 :=
  C08_delete_step_effect (C07_reach_run ops (Reach_deployed hD) hops).inv
    (C07_reach_run ops (Reach_deployed hD) hops).clean hm hs he hle

/-! non-vacuity of `C08_delete_step_iff_reach` / `_effect_reach`: from the concrete deployment
    `deployedEx` (Props/C01Closed.lean; account 1 holds 10 of denom 0), account 1 lists 10 of
    denom 0 and finalizes for 600 s; `C08REx.dFin` is that state, `C08REx.dExp` the same 600 s
    later. -/

namespace C08REx
def dOps : List Op :=
  [ .exec 1 [⟨0, 10⟩] (.createListing 5 ⟨⟨[⟨2, 3⟩], [], []⟩, none⟩), .exec 1 [] (.finalize 5 600) ]
def dFin : World := run deployedEx dOps
def dExp : World := run deployedEx (dOps ++ [.advance (600 * NS) 0])
end C08REx

example : Deployed deployedEx := by
  refine ⟨⟨1700000000123456789, some 7, rfl⟩, ?_, ?_, ?_, rfl, by decide⟩
  · intro d; simp [deployedEx, lget, alookup]
  · intro t; simp [deployedEx, lget]
  · intro k; simp [deployedEx]

example : (∀ op ∈ C08REx.dOps ++ [.advance (600 * NS) 0], op.avoids deployedEx.self ∧ op.unforged) ∧
    (∃ p ∈ C08REx.dFin.mkt.listings, p.2.status = .finalized ∧ p.2.creator = 1 ∧ p.2.id = 5 ∧
      p.2.expiresAt = some (C08REx.dFin.nowNs + 600 * NS)) ∧
    (step C08REx.dFin (.exec 1 [] (.deleteListing 5))).2.ok = false ∧
    C08REx.dExp.nowNs = C08REx.dFin.nowNs + 600 * NS ∧
    (step C08REx.dExp (.exec 1 [] (.deleteListing 5))).2.ok = true ∧
    (step C08REx.dExp (.exec 1 [] (.deleteListing 5))).2.msgs = [.bankSend 1 [⟨0, 10⟩]] := by
  decide

/-! ## axioms -/

#print axioms C08_delete_iff_reach
#print axioms C08_binding_reach
#print axioms C08_binding_others_reach
#print axioms C08_frame_reach
#print axioms C08_goods_frame_reach
#print axioms C08_status_forward_reach
#print axioms C08_transitions_reach
#print axioms C08_when_removed_reach
#print axioms C08_gone_forever_reach
#print axioms C08_run_gone_stays_reach
#print axioms C08_step_frame_reach
#print axioms C08_step_binding_reach
#print axioms C08_step_when_removed_reach
#print axioms C08_run_monotone_reach
#print axioms C08_finalize_step_iff_reach
#print axioms C08_finalize_step_iff_lit_reach
#print axioms C08_finalize_step_effect_reach
#print axioms C08_finalize_step_only_reach
#print axioms C08_finalize_step_others_reach
#print axioms C08_finalized_has_expiry_reach
#print axioms C08_delete_step_refused_reach
#print axioms C08_delete_step_iff_reach
#print axioms C08_delete_step_effect_reach

end Fuzion
