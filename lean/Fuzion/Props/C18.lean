/-
  Fuzion.Props.C18 — "A third-party contract cannot alter or freeze someone else's escrow".

  The full statement is FALSE of the code (defect D5, recorded as a known finding): the receive
  hooks cannot authenticate `wrapper.sender`.  This file proves the negation with a concrete
  reachable witness (replayed on the implementation by the corpus history `corpus:3`), for both
  entry points and both victim kinds.  What a forged call still cannot do is proved in
  `Props/C18Partial.lean`.
-/
import Fuzion.Inv.MInv
namespace Fuzion

/-- A tiny world: marketplace 9, pool 8, registry 7; victim 1 holds 10 of denom 0 and 10 of denom 2;
    hostile contract 6 answers `TokenInfo` and rejects `Transfer` / `TransferNft` sent to it. -/
def c18World : World :=
  { self := 9, pool := 8, regAddr := 7, junoD := 0, usdcD := 1, nowNs := 1700000000123456789, height := 1000,
    mkt := instantiate 1700000000123456789 (some 7), reg := [],
    bank := [((1, 0), 10), ((1, 2), 10)], cw20 := [], nft := [],
    contracts := [(9, ⟨none, 0, false, false⟩), (7, ⟨none, 0, false, false⟩), (6, ⟨none, 3, true, true⟩)] }

/-- the victim escrows a bucket (id 3) and a listing in preparation (id 5) -/
def c18Setup : List Op :=
  [ .exec 1 [⟨0, 10⟩] (.createBucket 3),
    .exec 1 [⟨2, 10⟩] (.createListing 5 ⟨⟨[⟨0, 10⟩], [], []⟩, none⟩) ]

def forge20Bucket : Op := .exec 6 [] (.receive (.valid 1) 5 (some (.addToBucket 3)))
def forge721Bucket : Op := .exec 6 [] (.receiveNft (.valid 1) 1 (some (.addToBucket 3)))
def forge20Listing : Op := .exec 6 [] (.receive (.valid 1) 5 (some (.addToListing 5)))
def forge721Listing : Op := .exec 6 [] (.receiveNft (.valid 1) 1 (some (.addToListing 5)))

/-- `C18Safe w op`: the op (sent by somebody who is not the victim `v`) leaves every record filed
    under `v` as it was, and `v` can still cash out bucket `b` afterwards. -/
def C18Safe (w : World) (op : Op) (v b : Nat) : Prop :=
  (∀ k, k.1 = v → alookup k (step w op).1.mkt.buckets = alookup k w.mkt.buckets) ∧
  (∀ k, k.1 = v → alookup k (step w op).1.mkt.listings = alookup k w.mkt.listings) ∧
  (step (step w op).1 (.exec v [] (.removeBucket b))).2.ok = true

/-- before the forged call the victim can withdraw (the witness state is not already broken) -/
theorem C18_before : (step (run c18World c18Setup) (.exec 1 [] (.removeBucket 3))).2.ok = true ∧
    (step (run c18World c18Setup) (.exec 1 [] (.deleteListing 5))).2.ok = true := by decide

/-- the forged CW20 call is accepted, adds 5 of the caller's own token to the victim's bucket … -/
theorem C18_forged_accepted :
    (step (run c18World c18Setup) forge20Bucket).2.ok = true ∧
    (alookup (1, 3) (step (run c18World c18Setup) forge20Bucket).1.mkt.buckets).map (·.funds.cw20) = some [⟨6, 5⟩] := by
  decide

/-- … and the bucket can no longer be withdrawn: the negation of C18, with a reachable witness -/
theorem C18_counterexample :
    ∃ w op v b, (∃ ops, w = run c18World ops) ∧ ¬ C18Safe w op v b :=
  ⟨run c18World c18Setup, forge20Bucket, 1, 3, ⟨c18Setup, rfl⟩, by
    intro h
    exact absurd h.2.2 (by decide)⟩

/-- the same through the CW721 entry point -/
theorem C18_counterexample_nft :
    (step (run c18World c18Setup) forge721Bucket).2.ok = true ∧
    (step (step (run c18World c18Setup) forge721Bucket).1 (.exec 1 [] (.removeBucket 3))).2.ok = false := by decide

/-- and for a listing in preparation: after either forged top-up the creator cannot delete it -/
theorem C18_counterexample_listing :
    (step (run c18World c18Setup) forge20Listing).2.ok = true ∧
    (step (step (run c18World c18Setup) forge20Listing).1 (.exec 1 [] (.deleteListing 5))).2.ok = false ∧
    (step (run c18World c18Setup) forge721Listing).2.ok = true ∧
    (step (step (run c18World c18Setup) forge721Listing).1 (.exec 1 [] (.deleteListing 5))).2.ok = false := by decide

/-- a *finalized* listing is out of reach of both forged top-ups (refused) -/
theorem C18_finalized_refused :
    let w := (step (run c18World c18Setup) (.exec 1 [] (.finalize 5 600))).1
    (step w forge20Listing).2.ok = false ∧ (step w forge721Listing).2.ok = false := by decide

/-- an account (not a contract) cannot forge: both hooks refuse it -/
theorem C18_account_cannot_forge :
    (step (run c18World c18Setup) (.exec 2 [] (.receive (.valid 1) 5 (some (.addToBucket 3))))).2.ok = false ∧
    (step (run c18World c18Setup) (.exec 2 [] (.receiveNft (.valid 1) 1 (some (.addToBucket 3))))).2.ok = false := by decide

#print axioms C18_before
#print axioms C18_forged_accepted
#print axioms C18_counterexample
#print axioms C18_counterexample_nft
#print axioms C18_counterexample_listing
#print axioms C18_finalized_refused
#print axioms C18_account_cannot_forge
end Fuzion
