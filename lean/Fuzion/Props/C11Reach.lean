/-
  Fuzion.Props.C11Reach — C11 ("Royalties never take more than half of any traded amount") at
  TRANSACTION level, for every state reached from a freshly instantiated marketplace.

  Props/C11.lean proves the 50 % gate and its consequences for the pure function `royalties`
  (`GenericBalance::royalties`).  Here they are stated for the purchase transaction
  `.exec buyer [] (.buy lid bid)` executed in `𝐰 = run w0 ops`:

  * (a) `C11_buy_half_reach`: in every accepted purchase the royalties paid out of each fungible
    entry of either side total at most half of its after-fee amount, at least half stays in the
    record, and nothing is reduced to zero — `IdsInv` / `WFInv` of the reached state are discharged
    by `closed_ids` / `closed_wf0` (C09 / C12); no bound on the amounts is needed;
  * (b) `C11_buy_refused_over_half_reach`: when the rates registered for the collections of one
    side sum to more than 5000 bps the purchase is refused and the world is unchanged (in every
    state: no hypothesis on the history);
  * (c) `C11_buy_exact_half_reach` / `C11_buy_accepted_at_half_reach`: with the real registry
    address stored at deployment, a purchase is refused with `royaltyOverHalf` ONLY in case (b) —
    at exactly 5000 bps it is not refused for that reason, and the handler accepts when the other
    published terms hold.

  The accepted transaction is decomposed (`step_buy_split`, Lemmas/ArithReachLemmas.lean) into the
  model's own `calcFeeCoin` and `royalties` calls; reading guide as in Props/C17Reach.lean: `l`,
  `b` = traded listing / paying bucket in `𝐰`, `l'`, `b'` = the re-filed records, `lbal`, `bbal` =
  goods / funds after the fee step.
-/
import Fuzion.Props.C11
import Fuzion.Props.C02World
import Fuzion.Props.C06Closed
import Fuzion.Lemmas.ArithReachLemmas
namespace Fuzion

/-- "royalties never take more than half", for one side: `g` = the side after the fee, `g'` = the
    side stored, `ms` = the royalty messages emitted for this side -/
structure RoyaltyHalf (g g' : GBal) (ms : List OutMsg) : Prop where
  /-- per native denomination / CW20 token: everything paid out is at most half of the after-fee
      amount … -/
  paidN : ∀ k, 2 * outNative ms k ≤ coinAmt g.native k
  paidC : ∀ k, 2 * outCw20 ms k ≤ coinAmt g.cw20 k
  /-- … and what stays in the record is at least half of it -/
  keptN : ∀ k, coinAmt g.native k ≤ 2 * coinAmt g'.native k
  keptC : ∀ k, coinAmt g.cw20 k ≤ 2 * coinAmt g'.cw20 k
  /-- entry by entry (native): same key, what was taken is at most half, at least 1 stays -/
  entryN : g'.native.length = g.native.length ∧
    ∀ i (h₁ : i < g.native.length) (h₂ : i < g'.native.length),
      g'.native[i].key = g.native[i].key ∧ g'.native[i].amount ≤ g.native[i].amount ∧
      2 * (g.native[i].amount - g'.native[i].amount) ≤ g.native[i].amount ∧
      1 ≤ g'.native[i].amount
  /-- entry by entry (CW20) -/
  entryC : g'.cw20.length = g.cw20.length ∧
    ∀ i (h₁ : i < g.cw20.length) (h₂ : i < g'.cw20.length),
      g'.cw20[i].key = g.cw20[i].key ∧ g'.cw20[i].amount ≤ g.cw20[i].amount ∧
      2 * (g.cw20[i].amount - g'.cw20[i].amount) ≤ g.cw20[i].amount ∧
      1 ≤ g'.cw20[i].amount
  /-- the stored side is well-formed again: no zero amount, same keys, NFTs and asset count -/
  wf : wfBal g' = true

theorem RoyaltyHalf.of_royalties {g g' : GBal} {rs : List (Option RoyaltyInfo)}
    {ms : List OutMsg} {s : Nat} (wf : wfBal g = true) (h : royalties g rs = .ok g' ms s) :
    RoyaltyHalf g g' ms := by
  obtain ⟨p1, p2⟩ := C11_half_total h
  obtain ⟨c1, c2, _⟩ := C17_roy_conserve h
  obtain ⟨n1, n2⟩ := C11_half_native h
  obtain ⟨k1, k2⟩ := C11_half_cw20 h
  have wf' := wf
  simp only [wfBal, Bool.and_eq_true, decide_eq_true_eq, allNonzero_iff] at wf'
  obtain ⟨⟨⟨⟨⟨z1, z2⟩, _⟩, _⟩, _⟩, _⟩ := wf'
  refine ⟨p1, p2, ?_, ?_, ⟨n1, ?_⟩, ⟨k1, ?_⟩, C11_wf wf h⟩
  · intro k
    have := p1 k; have := c1 k; omega
  · intro k
    have := p2 k; have := c2 k; omega
  · intro i h₁ h₂
    obtain ⟨a, b, c, d⟩ := n2 i h₁ h₂
    have := z1 _ (List.getElem_mem h₁)
    exact ⟨a, b, c, d (by omega)⟩
  · intro i h₁ h₂
    obtain ⟨a, b, c, d⟩ := k2 i h₁ h₂
    have := z2 _ (List.getElem_mem h₁)
    exact ⟨a, b, c, d (by omega)⟩

section
variable {w0 : World} {t : Nat} {r : Option Nat}

/-! ### (a) at most half is taken, at least half (and ≥ 1) stays -/

/-- "Royalties never take more than half of any traded amount": in every purchase accepted in a
    state reached from an instantiated marketplace, for each side the stored contents and the
    royalty messages are the result of `royalties` on the side's after-fee balance (`calcFeeCoin`)
    with the registry's answers for the opposite side's collections; the rate sum of each side is
    at most 5000 bps; and (`RoyaltyHalf`) for every fungible entry of either side the royalties
    paid out of it total at most half of its after-fee amount, the amount that stays in the record
    is at least half of it and at least 1.  (Holds for all amounts: `Op.fits128` is not needed.) -/
theorem C11_buy_half_reach (h0 : w0.mkt = instantiate t r) (ops : List Op)
    {buyer lid bid fd : Nat}
    (hfd : fd = feeDenomOf (run w0 ops).env (run w0 ops).mkt.feeKind)
    (hok : (step (run w0 ops) (.exec buyer [] (.buy lid bid))).2.ok = true) :
    ∃ l b l' b' lbal bbal msgsB msgsL sB sL,
      alookup (l.creator, lid) (run w0 ops).mkt.listings = some l ∧
      alookup (buyer, bid) (run w0 ops).mkt.buckets = some b ∧
      alookup (buyer, lid) (step (run w0 ops) (.exec buyer [] (.buy lid bid))).1.mkt.listings =
        some l' ∧
      alookup (l.creator, bid) (step (run w0 ops) (.exec buyer [] (.buy lid bid))).1.mkt.buckets =
        some b' ∧
      calcFeeCoin fd l.forSale = some (l'.fee, lbal) ∧
      calcFeeCoin fd b.funds = some (b'.fee, bbal) ∧
      royalties bbal ((collections l.forSale).map (run w0 ops).env.regLookup) =
        .ok b'.funds msgsB sB ∧
      royalties lbal ((collections b.funds).map (run w0 ops).env.regLookup) =
        .ok l'.forSale msgsL sL ∧
      (step (run w0 ops) (.exec buyer [] (.buy lid bid))).2.msgs =
        pendingFeeMsgs (run w0 ops).self b.fee ++ msgsB ++ msgsL ∧
      -- the gate was passed on both sides
      sB = ((sideEntries (run w0 ops).env l.forSale).map (·.bps)).sum ∧ sB ≤ 5000 ∧
      sL = ((sideEntries (run w0 ops).env b.funds).map (·.bps)).sum ∧ sL ≤ 5000 ∧
      -- at most half is taken, at least half and at least 1 stays
      RoyaltyHalf bbal b'.funds msgsB ∧ RoyaltyHalf lbal l'.forSale msgsL := by
  subst hfd
  obtain ⟨l, b, l', b', lbal, bbal, msgsB, msgsL, sB, sL, h1, h2, h3, h4, h5, h6, h7, h8, h9,
    wl, wb⟩ := step_buy_split (closed_ids h0 ops) (closed_wf0 h0 ops) hok
  obtain ⟨g1, g2⟩ := C11_gate_ok h7
  obtain ⟨g3, g4⟩ := C11_gate_ok h8
  exact ⟨l, b, l', b', lbal, bbal, msgsB, msgsL, sB, sL, h1, h2, h3, h4, h5, h6, h7, h8, h9,
    g1, g2, g3, g4, RoyaltyHalf.of_royalties (C17_fee_wf wb h6) h7,
    RoyaltyHalf.of_royalties (C17_fee_wf wl h5) h8⟩

/-- non-vacuity of `C11_buy_half_reach`: it applies to the sample purchase (`C06CEx`) … -/
example := C11_buy_half_reach (w0 := AcctEx.w0) rfl C06CEx.ops
  (buyer := 2) (lid := 3) (bid := 8) rfl (by decide)

/-! ### sample worlds at the gate

The sample deployment `AcctEx.w0` with collection 60 registered at exactly 50 % (`wHalf`) and at
50.01 % (`wOver`) — rates the registry's own messages never store (`C14_reach_bps`), seeded here to
reach the gate with one collection —, and the first five operations of the sample history: seller 1
lists 1000 of denom 1, 400 of token 50 and NFT (60, 7) for 2000 of denom 2 and finalizes; buyer 2
fills bucket 8 with the price. -/

namespace C11REx
def wHalf0 : World := { AcctEx.w0 with reg := [(60, ⟨0, 5000, 9⟩)] }
def wOver0 : World := { AcctEx.w0 with reg := [(60, ⟨0, 5001, 9⟩)] }
def ops : List Op := AcctEx.ops.take 5
end C11REx

/-- … and at the gate: with the seller's collection at exactly 5000 bps the purchase is accepted,
    1000 of the bucket's 2000 go to the payout address and 1000 stay -/
example : (step (run C11REx.wHalf0 C11REx.ops) (.exec 2 [] (.buy 3 8))).2.ok = true ∧
    (step (run C11REx.wHalf0 C11REx.ops) (.exec 2 [] (.buy 3 8))).2.msgs =
      [.bankSend 9 [⟨2, 1000⟩]] ∧
    (step (run C11REx.wHalf0 C11REx.ops) (.exec 2 [] (.buy 3 8))).1.mkt.buckets.map
      (fun p => p.2.funds) = [⟨[⟨2, 1000⟩], [], []⟩] := by decide
example := C11_buy_half_reach (w0 := C11REx.wHalf0) rfl C11REx.ops
  (buyer := 2) (lid := 3) (bid := 8) rfl (by decide)

/-! ### (b) above 50 % the purchase is refused -/

/-- "Royalties never take more than half": if the rates registered for the collections of the
    goods of listing `lid`, or of the funds of the paying bucket, sum to more than 5000 bps, the
    handler refuses, the purchase transaction fails and the world is unchanged.  Holds in every
    state `run w0 ops` (no hypothesis on `w0` or the history is needed). -/
theorem C11_buy_refused_over_half_reach (w0 : World) (ops : List Op) (buyer lid bid : Nat) :
    ∀ k l b, findById lid (run w0 ops).mkt.listings = some (k, l) →
      alookup (buyer, bid) (run w0 ops).mkt.buckets = some b →
      (((sideEntries (run w0 ops).env l.forSale).map (·.bps)).sum > 5000 ∨
       ((sideEntries (run w0 ops).env b.funds).map (·.bps)).sum > 5000) →
      (∀ res, buy (run w0 ops).mkt (run w0 ops).env buyer lid bid ≠ .ok res) ∧
      (step (run w0 ops) (.exec buyer [] (.buy lid bid))).2.ok = false ∧
      (step (run w0 ops) (.exec buyer [] (.buy lid bid))).2.msgs = [] ∧
      (step (run w0 ops) (.exec buyer [] (.buy lid bid))).1 = run w0 ops := by
  intro k l b hl hb hover
  have hT : ¬ BuyTerms (run w0 ops).mkt (run w0 ops).env buyer lid bid := by
    rintro ⟨k', l', b', hl', hb', _, _, _, _, _, _, s1, s2⟩
    rw [hl] at hl'; cases hl'
    rw [hb] at hb'; cases hb'
    rw [bpsOf_eq_sideEntries] at s1 s2
    omega
  refine ⟨fun res h => hT (BuyTerms.of_ok h), (C02_step_refused hT).1, ?_, (C02_step_refused hT).2⟩
  rcases stepF_buy_cases noFault (run w0 ops) buyer lid bid with ⟨e, hs⟩ | ⟨m', msgs, w2, hx, _, _⟩
  · show (stepF noFault _ _).2.msgs = []
    rw [hs]; rfl
  · exact absurd (BuyTerms.of_ok hx) hT

/-- non-vacuity of `C11_buy_refused_over_half_reach`: in the state reached from `wOver0` the
    records exist, the seller's collection is registered at 5001 bps, and the purchase is refused
    with `royaltyOverHalf` -/
example : ∃ k l b, findById 3 (run C11REx.wOver0 C11REx.ops).mkt.listings = some (k, l) ∧
    alookup (2, 8) (run C11REx.wOver0 C11REx.ops).mkt.buckets = some b ∧
    ((sideEntries (run C11REx.wOver0 C11REx.ops).env l.forSale).map (·.bps)).sum = 5001 ∧
    (step (run C11REx.wOver0 C11REx.ops) (.exec 2 [] (.buy 3 8))).2.err =
      some .royaltyOverHalf :=
  ⟨_, _, _, rfl, rfl, by decide, by decide⟩

/-! ### (c) at exactly 50 % it is not refused for that reason -/

/-- "at most half": with the address of the real registry stored at deployment, in every reached
    state a purchase is refused with `Err.royaltyOverHalf` — by the handler or as a transaction —
    ONLY if the rates registered for the collections of one of the two sides sum to MORE than 5000
    bps.  So at exactly 5000 bps (or below) it is never refused for that reason. -/
theorem C11_buy_exact_half_reach {w0 : World} (hreg : w0.mkt.registry = some w0.regAddr)
    (ops : List Op) (buyer lid bid : Nat)
    (h : buy (run w0 ops).mkt (run w0 ops).env buyer lid bid = .error .royaltyOverHalf ∨
      (step (run w0 ops) (.exec buyer [] (.buy lid bid))).2.err = some .royaltyOverHalf) :
    ∃ k l b, findById lid (run w0 ops).mkt.listings = some (k, l) ∧
      alookup (buyer, bid) (run w0 ops).mkt.buckets = some b ∧
      (((sideEntries (run w0 ops).env l.forSale).map (·.bps)).sum > 5000 ∨
       ((sideEntries (run w0 ops).env b.funds).map (·.bps)).sum > 5000) := by
  have hb : buy (run w0 ops).mkt (run w0 ops).env buyer lid bid = .error .royaltyOverHalf := by
    rcases h with h | h
    · exact h
    · rcases step_buy_err h with h | h
      · cases h
      · exact h
  obtain ⟨k, l, b, ra, hl, hbk, hra, hc⟩ := (buy_error_inv hb).2.2 rfl
  obtain ⟨r1, r2⟩ := run_registry ops w0
  have : ra = (run w0 ops).env.regAddr := by
    rw [r1, hreg] at hra
    injection hra with hra
    rw [← hra]; exact r2.symm
  refine ⟨k, l, b, hl, hbk, ?_⟩
  rcases hc with hc | hc | hc
  · exact absurd this hc
  · exact .inl hc
  · exact .inr hc

/-- non-vacuity of `C11_buy_exact_half_reach`: `wOver0` stores the real registry address and the
    purchase in the reached state is refused with `royaltyOverHalf` (5001 bps, see above) -/
example : C11REx.wOver0.mkt.registry = some C11REx.wOver0.regAddr ∧
    (step (run C11REx.wOver0 C11REx.ops) (.exec 2 [] (.buy 3 8))).2.err =
      some .royaltyOverHalf := ⟨rfl, by decide⟩

/-- "exactly 50 % is allowed": with the address of the real registry stored at deployment, in
    every reached state the handler ACCEPTS a purchase whose other published terms hold and whose
    two rate sums are at most 5000 bps — bound included. -/
theorem C11_buy_accepted_at_half_reach {w0 : World} (hreg : w0.mkt.registry = some w0.regAddr)
    (ops : List Op) (buyer lid bid : Nat) :
    ∀ k l b, findById lid (run w0 ops).mkt.listings = some (k, l) →
      alookup (buyer, bid) (run w0 ops).mkt.buckets = some b →
      l.status = .finalized → l.claimant = none →
      (∀ e, l.expiresAt = some e → (run w0 ops).nowNs ≤ e) →
      (∀ x, l.whitelist = some x → x = buyer) → b.owner = buyer →
      genbalCmp b.funds l.ask = true →
      ((sideEntries (run w0 ops).env l.forSale).map (·.bps)).sum ≤ 5000 →
      ((sideEntries (run w0 ops).env b.funds).map (·.bps)).sum ≤ 5000 →
      ∃ res, buy (run w0 ops).mkt (run w0 ops).env buyer lid bid = .ok res := by
  intro k l b hl hb hs hc he hw ho hg s1 s2
  obtain ⟨r1, r2⟩ := run_registry ops w0
  have hreg' : (run w0 ops).mkt.registry = some (run w0 ops).env.regAddr := by
    rw [r1, hreg]; exact congrArg some r2.symm
  exact (C02_buy_iff hreg').2 ⟨k, l, b, hl, hb, hs, hc, he, hw, ho, hg, s1, s2⟩

/-- non-vacuity of `C11_buy_accepted_at_half_reach`, at the bound: in the state reached from
    `wHalf0` the seller's rate sum is exactly 5000 and all terms hold (the transaction is accepted
    too, see the example after `C11_buy_half_reach`) -/
example : C11REx.wHalf0.mkt.registry = some C11REx.wHalf0.regAddr ∧
    ∃ k l b, findById 3 (run C11REx.wHalf0 C11REx.ops).mkt.listings = some (k, l) ∧
      alookup (2, 8) (run C11REx.wHalf0 C11REx.ops).mkt.buckets = some b ∧
      l.status = .finalized ∧ l.claimant = none ∧
      (∀ e, l.expiresAt = some e → (run C11REx.wHalf0 C11REx.ops).nowNs ≤ e) ∧
      (∀ x, l.whitelist = some x → x = 2) ∧ b.owner = 2 ∧ genbalCmp b.funds l.ask = true ∧
      ((sideEntries (run C11REx.wHalf0 C11REx.ops).env l.forSale).map (·.bps)).sum = 5000 ∧
      ((sideEntries (run C11REx.wHalf0 C11REx.ops).env b.funds).map (·.bps)).sum = 0 :=
  ⟨rfl, _, _, _, rfl, rfl, by decide, by decide, by decide, by decide, by decide, by decide,
    by decide, by decide⟩

end

/-! ## axioms -/

#print axioms C11_buy_half_reach
#print axioms C11_buy_refused_over_half_reach
#print axioms C11_buy_exact_half_reach
#print axioms C11_buy_accepted_at_half_reach

end Fuzion
