/-
  Fuzion.Props.C07Closed — C07 from deployment: the `Reach` hypothesis of `C07_reachable`
  discharged for a freshly deployed marketplace (`Deployed`, Props/C01Closed.lean).
-/
import Fuzion.Props.C07
import Fuzion.Props.C01Closed
namespace Fuzion

theorem Reach_deployed {w : World} (h : Deployed w) : Reach w := by
  obtain ⟨t, r, hm⟩ := h.mkt
  refine ⟨C01Inv_deployed h, ⟨?_, ?_⟩⟩
  · intro p hp; rw [hm] at hp; cases hp
  · intro p hp; rw [hm] at hp; cases hp

/-- **Nothing gets stuck, from deployment**: after any history (from a freshly deployed
    marketplace) whose operations are not signed by the marketplace, do not register it as payout
    address and contain no forged hook call, every listing that is not finalized-and-still-running
    is cashed out by one message of its creator / buyer, every bucket by one message of its owner,
    and after waiting long enough the state is `Drainable` (so `C07_drain`: all exits succeed, no
    record remains, the marketplace holds nothing). -/
theorem C07_from_deployment {w0 : World} (h0 : Deployed w0) (ops : List Op)
    (hops : ∀ op ∈ ops, op.avoids w0.self ∧ op.unforged) :
    (∀ k l, (k, l) ∈ (run w0 ops).mkt.listings → l.exitable (run w0 ops).nowNs →
      (step (run w0 ops) (.exec l.creator [] l.exitMsg)).2.ok = true) ∧
    (∀ k b, (k, b) ∈ (run w0 ops).mkt.buckets →
      (step (run w0 ops) (.exec b.owner [] (.removeBucket k.2))).2.ok = true) ∧
    ∃ dNs, Drainable (step (run w0 ops) (.advance dNs 0)).1 :=
  C07_reachable (Reach_deployed h0) ops hops

#print axioms Reach_deployed
#print axioms C07_from_deployment
end Fuzion
