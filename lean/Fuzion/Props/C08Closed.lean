/-
  Fuzion.Props.C08Closed — the run-level immutability theorem with `IdsInv` preservation
  discharged by C09.
-/
import Fuzion.Props.C08
import Fuzion.Props.C09
namespace Fuzion

/-- along every history a non-preparing listing keeps ask, whitelist, expiration and finalization
    stamp, and its status never moves backwards, until it is gone -/
theorem C08_run_monotone_closed {w : World} {lid : Nat} {k : Nat × Nat} {l : Listing}
    (hI : IdsInv w.mkt) (hfind : findById lid w.mkt.listings = some (k, l))
    (hst : l.status ≠ .preparing) (ops : List Op) :
    findById lid (run w ops).mkt.listings = none ∨
    ∃ k' l', findById lid (run w ops).mkt.listings = some (k', l') ∧ l'.status ≠ .preparing ∧
      l'.ask = l.ask ∧ l'.whitelist = l.whitelist ∧ l'.expiresAt = l.expiresAt ∧
      l'.finalizedAt = l.finalizedAt ∧ statusRank' l.status ≤ statusRank' l'.status :=
  C08_run_monotone (fun _ _ _ _ _ _ _ hi h => C09_inv_execute hi h) hI hfind hst ops

#print axioms C08_run_monotone_closed
end Fuzion
