/-
  Fuzion.Props.C18Reach — what forged hook calls cannot do, for EVERY history from a deployment.

  Property text (C18): "A third-party contract cannot alter or freeze someone else's escrow."
  The full property is FALSE of the code (known finding, `Props/C18.lean`): any contract may call the
  `Receive` / `ReceiveNft` hooks directly and name an arbitrary `sender`.  `Props/C18Partial.lean`
  bounds one such call under the id invariant `IdsInv` as a hypothesis.  Here the invariant is
  DISCHARGED (`C09_reach`: it holds after every list of operations, forged calls included), so the
  bounds hold in every state `𝐰 = run w0 ops` reached from a deployment `w0` by ANY history `ops` —
  no `Op.unforged`, not even `Op.avoids` is needed — and they are lifted from one forged call to
  whole lists of forged calls.

  A *forged call* is an operation `.exec caller funds (.receive sender x inner)` or
  `.exec caller funds (.receiveNft sender x inner)`: the hook is called directly, by anybody, with or
  without coins (`Op.hookCaller op = some caller`; genuine deposits are `.send20` / `.send721`).

  (a) `C18_forged_step_confined_reach`   one accepted forged call writes ONE storage key, filed under
        the named sender; the record there keeps every field and every asset, the only difference is
        an entry keyed by the caller's own address; a finalized / sold listing is not that record;
        a record created by the call is in preparation / a bucket and holds the caller's asset only.
  (b) `C18_finalized_immune_reach`, `C18_finalized_immune_run_reach`   a listing that is finalized or
        sold is returned unchanged by one forged call / any list of forged calls.
  (c) `C18_honest_entries_frozen_reach`   after any list of forged calls (CW20 hook callers in `P20`,
        CW721 hook callers in `P721`) every record is still there under its key with the same fields,
        the same native coins, the same amount of every token outside `P20` and the same NFTs
        followed by NFTs of collections in `P721` only; nothing but the marketplace record changes.
        Instances: `C18_forgers_only_reach` (the keys are the forging callers' own addresses),
        `C18_honest_tokens_frozen_reach` (honest tokens / collections, condition `Op.honest` only).
  (d) `C18_accounts_cannot_forge_reach`   an address that is not a contract at deployment can never
        forge: both hooks refuse it in every reachable state and the world is unchanged.

  Helper lemmas: `Fuzion/Lemmas/ForgeReachLemmas.lean`.  Core library only.
-/
import Fuzion.Lemmas.ForgeReachLemmas
import Fuzion.Props.C01Closed
namespace Fuzion

/-- the caller of a direct hook call; `none` for every other operation -/
def Op.hookCaller : Op → Option Nat
  | .exec c _ (.receive _ _ _) => some c
  | .exec c _ (.receiveNft _ _ _) => some c
  | _ => none

/-- the callers of the direct hook calls in a list of operations -/
def forgersOf (ops : List Op) : List Nat := ops.filterMap Op.hookCaller

/-- the example world of `Props/C18.lean` (it has the hostile contract 6) is a deployment -/
theorem c18World_deployed : Deployed c18World := by
  refine ⟨⟨1700000000123456789, some 7, rfl⟩, ?_, ?_, ?_, rfl, by decide⟩
  · intro d; simp [c18World, lget, alookup]
  · intro t; simp [c18World, lget]
  · intro k; simp [c18World]

section
variable {w0 : World} (ops : List Op) (op : Op) (ops' : List Op)
/-- the state reached by the history -/
local notation "𝐰" => run w0 ops
/-- … after one more operation `op` -/
local notation "𝐰₁" => Prod.fst (step (run w0 ops) op)
/-- … after the continuation `ops'` -/
local notation "𝐰'" => run (run w0 ops) ops'

/-! ### (a) one forged call -/

/-- "A third-party contract cannot alter … someone else's escrow" — what holds of ONE accepted forged
    hook call in ANY reachable state: it carries no coins, pays out nothing, changes nothing but the
    marketplace record; the named sender is a valid address `user`; exactly one storage key `k0`,
    filed under `user`, is written, in one of the two tables; every record that existed is still
    there with every field as it was, its native coins, the amount of every CW20 token other than
    `caller` and all its NFTs — the only possible difference is a larger amount of the token
    `caller` or one appended NFT of the collection `caller`, and only if the record is a bucket or a
    listing still in preparation; a record that did not exist before is filed under `user`, is a
    listing in preparation / a bucket, and holds assets keyed `caller` only. -/
theorem C18_forged_step_confined_reach (hd : Deployed w0) (caller : Nat) (funds : List Coin)
    (sender : RawAddr) (x : Nat) (inner : Option Inner)
    (hop : op = .exec caller funds (.receive sender x inner) ∨
      op = .exec caller funds (.receiveNft sender x inner))
    (hok : (step 𝐰 op).2.ok = true) :
    funds = [] ∧ (step 𝐰 op).2.msgs = [] ∧ 𝐰₁ = { 𝐰 with mkt := 𝐰₁.mkt } ∧
    ∃ user, sender = .valid user ∧
      -- ONE record, of the named sender
      (∃ k0 : Nat × Nat, k0.1 = user ∧
        (∀ k, k ≠ k0 → alookup k 𝐰₁.mkt.listings = alookup k 𝐰.mkt.listings ∧
          alookup k 𝐰₁.mkt.buckets = alookup k 𝐰.mkt.buckets) ∧
        (𝐰₁.mkt.listings = 𝐰.mkt.listings ∨ 𝐰₁.mkt.buckets = 𝐰.mkt.buckets)) ∧
      -- every existing listing
      (∀ k l, alookup k 𝐰.mkt.listings = some l → ∃ l', alookup k 𝐰₁.mkt.listings = some l' ∧
        (l.status ≠ .preparing → l' = l) ∧
        l'.creator = l.creator ∧ l'.id = l.id ∧ l'.status = l.status ∧ l'.ask = l.ask ∧
        l'.whitelist = l.whitelist ∧ l'.claimant = l.claimant ∧ l'.finalizedAt = l.finalizedAt ∧
        l'.expiresAt = l.expiresAt ∧ l'.fee = l.fee ∧ l'.forSale.native = l.forSale.native ∧
        (∀ t, t ≠ caller → coinAmt l'.forSale.cw20 t = coinAmt l.forSale.cw20 t) ∧
        coinAmt l.forSale.cw20 caller ≤ coinAmt l'.forSale.cw20 caller ∧
        (l'.forSale.nfts = l.forSale.nfts ∨ l'.forSale.nfts = l.forSale.nfts ++ [⟨caller, x⟩])) ∧
      -- every existing bucket
      (∀ k b, alookup k 𝐰.mkt.buckets = some b → ∃ b', alookup k 𝐰₁.mkt.buckets = some b' ∧
        b'.owner = b.owner ∧ b'.fee = b.fee ∧ b'.funds.native = b.funds.native ∧
        (∀ t, t ≠ caller → coinAmt b'.funds.cw20 t = coinAmt b.funds.cw20 t) ∧
        coinAmt b.funds.cw20 caller ≤ coinAmt b'.funds.cw20 caller ∧
        (b'.funds.nfts = b.funds.nfts ∨ b'.funds.nfts = b.funds.nfts ++ [⟨caller, x⟩])) ∧
      -- a record that is new
      (∀ k l', alookup k 𝐰.mkt.listings = none → alookup k 𝐰₁.mkt.listings = some l' →
        k.1 = user ∧ l'.creator = user ∧ l'.id = k.2 ∧ l'.status = .preparing ∧
        l'.forSale.native = [] ∧ (∀ c ∈ l'.forSale.cw20, c.key = caller) ∧
        (∀ n ∈ l'.forSale.nfts, n.coll = caller)) ∧
      (∀ k b', alookup k 𝐰.mkt.buckets = none → alookup k 𝐰₁.mkt.buckets = some b' →
        k.1 = user ∧ b'.owner = user ∧ b'.fee = none ∧
        b'.funds.native = [] ∧ (∀ c ∈ b'.funds.cw20, c.key = caller) ∧
        (∀ n ∈ b'.funds.nfts, n.coll = caller)) := by
  obtain ⟨t, r, h0⟩ := hd.mkt
  have hI : IdsInv 𝐰.mkt := C09_reach h0 ops
  rcases hop with rfl | rfl
  · rcases forged_step_cases 𝐰 caller funds sender x inner with ⟨h1, _⟩ | ⟨hf, m', hx, hs⟩
    · rw [h1] at hok; cases hok
    · obtain ⟨_, user, hu, _, _, _, _, _, _, hone, hl, hb⟩ := C18_partial_receive hI hx
      obtain ⟨user', hu', nl, nb⟩ := C18_partial_receive_created hx
      have huu : user' = user := by rw [hu] at hu'; cases hu'; rfl
      subst huu
      rw [hs]
      refine ⟨hf, rfl, rfl, user', hu, hone, ?_, ?_, ?_, ?_⟩
      · intro k l hk
        obtain ⟨l', e, f0, f1, f2, f3, f4, f5, f6, f7, f8, f9, g1, g2, g3, g4, _⟩ := hl k l hk
        exact ⟨l', e, f0, f1, f2, f3, f4, f5, f6, f7, f8, f9, g1, g3, g4, .inl g2⟩
      · intro k b hk
        obtain ⟨b', e, f1, f2, g1, g2, g3, g4, _⟩ := hb k b hk
        exact ⟨b', e, f1, f2, g1, g3, g4, .inl g2⟩
      · intro k l' h1 h2
        obtain ⟨a1, _, _, a4, a5, a6, _, _, a9⟩ := nl k l' h1 h2
        refine ⟨a1, a4, a5, a6, ?_, ?_, ?_⟩ <;> rw [a9] <;> simp
      · intro k b' h1 h2
        obtain ⟨a1, _, _, a4⟩ := nb k b' h1 h2
        subst a4
        refine ⟨a1, rfl, rfl, rfl, ?_, ?_⟩ <;> simp
  · rcases forged_step_cases_nft 𝐰 caller funds sender x inner with ⟨h1, _⟩ | ⟨hf, m', hx, hs⟩
    · rw [h1] at hok; cases hok
    · obtain ⟨_, user, hu, _, _, _, _, _, _, hone, hl, hb⟩ := C18_partial_receiveNft hI hx
      obtain ⟨user', hu', nl, nb⟩ := C18_partial_receiveNft_created hx
      have huu : user' = user := by rw [hu] at hu'; cases hu'; rfl
      subst huu
      rw [hs]
      refine ⟨hf, rfl, rfl, user', hu, hone, ?_, ?_, ?_, ?_⟩
      · intro k l hk
        obtain ⟨l', e, f0, f1, f2, f3, f4, f5, f6, f7, f8, f9, g1, g2, g3⟩ := hl k l hk
        exact ⟨l', e, f0, f1, f2, f3, f4, f5, f6, f7, f8, f9, g1, fun t _ => by rw [g2],
          Nat.le_of_eq (by rw [g2]), g3.imp (fun e => by rw [e]) id⟩
      · intro k b hk
        obtain ⟨b', e, f1, f2, g1, g2, g3⟩ := hb k b hk
        exact ⟨b', e, f1, f2, g1, fun t _ => by rw [g2], Nat.le_of_eq (by rw [g2]),
          g3.imp (fun e => by rw [e]) id⟩
      · intro k l' h1 h2
        obtain ⟨a1, _, _, a4, a5, a6, _, _, a9⟩ := nl k l' h1 h2
        refine ⟨a1, a4, a5, a6, ?_, ?_, ?_⟩ <;> rw [a9] <;> simp
      · intro k b' h1 h2
        obtain ⟨a1, _, _, a4⟩ := nb k b' h1 h2
        subst a4
        refine ⟨a1, rfl, rfl, rfl, ?_, ?_⟩ <;> simp

/-- non-vacuity of (a): from the deployment `c18World`, after the victim's two deposits
    (`c18Setup`), the forged calls of `Props/C18.lean` have the required shape and are accepted -/
example : Deployed c18World ∧
    forge20Bucket = .exec 6 [] (.receive (.valid 1) 5 (some (.addToBucket 3))) ∧
    forge721Listing = .exec 6 [] (.receiveNft (.valid 1) 1 (some (.addToListing 5))) ∧
    (step (run c18World c18Setup) forge20Bucket).2.ok = true ∧
    (step (run c18World c18Setup) forge721Listing).2.ok = true :=
  ⟨c18World_deployed, rfl, rfl, by decide, by decide⟩

/-! ### (b) finalized and sold listings -/

/-- "cannot alter … someone else's escrow", finalized part: in any reachable state, whatever a forged
    hook call does (accepted or refused, any caller, any named sender, any inner message), every
    listing that is finalized or sold is afterwards stored under the same key as the very same
    record — goods, ask, whitelist, expiration, status, buyer, fee. -/
theorem C18_finalized_immune_reach (hd : Deployed w0) (caller : Nat) (hop : op.hookCaller = some caller)
    (k : Nat × Nat) (l : Listing) (hl : alookup k 𝐰.mkt.listings = some l)
    (hs : l.status ≠ .preparing) : alookup k 𝐰₁.mkt.listings = some l := by
  obtain ⟨t, r, h0⟩ := hd.mkt
  have hf : op.forgedBy (fun _ => True) (fun _ => True) := by
    cases op with
    | exec c f msg => cases msg <;> first | trivial | cases hop
    | _ => cases hop
  obtain ⟨l', e, hx⟩ := (forged_step_rel 𝐰 (C09_reach h0 ops) op hf).2.listing k l hl
  rw [e, hx.frozen hs]

/-- … and after any list of forged hook calls -/
theorem C18_finalized_immune_run_reach (hd : Deployed w0)
    (hops : ∀ o ∈ ops', o.hookCaller ≠ none)
    (k : Nat × Nat) (l : Listing) (hl : alookup k 𝐰.mkt.listings = some l)
    (hs : l.status ≠ .preparing) : alookup k 𝐰'.mkt.listings = some l := by
  obtain ⟨t, r, h0⟩ := hd.mkt
  have hf : ∀ o ∈ ops', o.forgedBy (fun _ => True) (fun _ => True) := by
    intro o ho
    have := hops o ho
    cases o with
    | exec c f msg => cases msg <;> first | trivial | exact absurd rfl this
    | _ => exact absurd rfl this
  obtain ⟨l', e, hx⟩ := (forged_run_rel 𝐰 (C09_reach h0 ops) ops' hf).2.listing k l hl
  rw [e, hx.frozen hs]

/-- the victim's listing 5 is finalized; the hostile contract then forges four calls -/
def c18Finalized : List Op := c18Setup ++ [.exec 1 [] (.finalize 5 600)]
def c18Forgeries : List Op := [forge20Bucket, forge721Bucket, forge20Listing, forge721Listing]

/-- non-vacuity of (b): in the reached state listing 5 is finalized, stored under key (1, 5), the
    four operations are hook calls, and the two aimed at the bucket are accepted -/
example : Deployed c18World ∧
    (∀ o ∈ c18Forgeries, o.hookCaller ≠ none) ∧ forge20Bucket.hookCaller = some 6 ∧
    ((alookup (1, 5) (run c18World c18Finalized).mkt.listings).map (·.status)) = some .finalized ∧
    (step (run c18World c18Finalized) forge20Bucket).2.ok = true ∧
    (step (step (run c18World c18Finalized) forge20Bucket).1 forge721Bucket).2.ok = true :=
  ⟨c18World_deployed, by decide, rfl, by decide, by decide, by decide⟩

/-! ### (c) whole lists of forged calls -/

/-- "cannot alter … someone else's escrow" — what survives ANY list `ops'` of forged hook calls made
    in any reachable state, where the callers of the CW20 hook satisfy `P20` and the callers of the
    CW721 hook satisfy `P721`: nothing but the marketplace record changes (no ledger, no registry
    entry, no clock), its fee configuration and registry address are as before, and every record
    that was there is still there under the same key, with the same owner, id, status, ask,
    whitelist, buyer, timestamps and fee, the same native coins, exactly the same amount of every
    CW20 token that is not in `P20` (and no smaller amount of any token), and the same NFTs in the
    same order followed by NFTs of collections in `P721` only; a listing that is not in preparation
    is the very same record.  So what the victim deposited is never reduced, removed or re-keyed;
    only entries keyed by the forgers' own addresses are added. -/
theorem C18_honest_entries_frozen_reach (hd : Deployed w0) (P20 P721 : Nat → Prop)
    (hops : ∀ o ∈ ops', o.forgedBy P20 P721) :
    𝐰' = { 𝐰 with mkt := 𝐰'.mkt } ∧
    𝐰'.mkt.feeKind = 𝐰.mkt.feeKind ∧ 𝐰'.mkt.feeSince = 𝐰.mkt.feeSince ∧
    𝐰'.mkt.registry = 𝐰.mkt.registry ∧
    (∀ k l, alookup k 𝐰.mkt.listings = some l → ∃ l', alookup k 𝐰'.mkt.listings = some l' ∧
      (l.status ≠ .preparing → l' = l) ∧
      l'.creator = l.creator ∧ l'.id = l.id ∧ l'.status = l.status ∧ l'.ask = l.ask ∧
      l'.whitelist = l.whitelist ∧ l'.claimant = l.claimant ∧ l'.finalizedAt = l.finalizedAt ∧
      l'.expiresAt = l.expiresAt ∧ l'.fee = l.fee ∧ l'.forSale.native = l.forSale.native ∧
      (∀ t, ¬ P20 t → coinAmt l'.forSale.cw20 t = coinAmt l.forSale.cw20 t) ∧
      (∀ t, coinAmt l.forSale.cw20 t ≤ coinAmt l'.forSale.cw20 t) ∧
      (∃ extra, l'.forSale.nfts = l.forSale.nfts ++ extra ∧ ∀ n ∈ extra, P721 n.coll)) ∧
    (∀ k b, alookup k 𝐰.mkt.buckets = some b → ∃ b', alookup k 𝐰'.mkt.buckets = some b' ∧
      b'.owner = b.owner ∧ b'.fee = b.fee ∧ b'.funds.native = b.funds.native ∧
      (∀ t, ¬ P20 t → coinAmt b'.funds.cw20 t = coinAmt b.funds.cw20 t) ∧
      (∀ t, coinAmt b.funds.cw20 t ≤ coinAmt b'.funds.cw20 t) ∧
      (∃ extra, b'.funds.nfts = b.funds.nfts ++ extra ∧ ∀ n ∈ extra, P721 n.coll)) := by
  obtain ⟨t, r, h0⟩ := hd.mkt
  obtain ⟨e, rel⟩ := forged_run_rel 𝐰 (C09_reach h0 ops) ops' hops
  refine ⟨e, rel.feeKind, rel.feeSince, rel.registry, ?_, ?_⟩
  · intro k l hl
    obtain ⟨l', e', x⟩ := rel.listing k l hl
    exact ⟨l', e', x.frozen, x.creator, x.id, x.status, x.ask, x.whitelist, x.claimant,
      x.finalizedAt, x.expiresAt, x.fee, x.goods.native, x.goods.cw20_same, x.goods.cw20_le,
      x.goods.nfts⟩
  · intro k b hb
    obtain ⟨b', e', x⟩ := rel.bucket k b hb
    exact ⟨b', e', x.owner, x.fee, x.funds.native, x.funds.cw20_same, x.funds.cw20_le, x.funds.nfts⟩

/-- a list of hook calls is forged by its own callers -/
theorem forgedBy_forgersOf (l : List Op) (hops : ∀ o ∈ l, o.hookCaller ≠ none) :
    ∀ o ∈ l, o.forgedBy (· ∈ forgersOf l) (· ∈ forgersOf l) := by
  intro o ho
  have hne := hops o ho
  have hm : ∀ c, o.hookCaller = some c → c ∈ forgersOf l :=
    fun c hc => List.mem_filterMap.2 ⟨o, ho, hc⟩
  cases o with
  | exec c f msg =>
    cases msg <;> first | exact hm c rfl | exact absurd rfl hne
  | _ => exact absurd rfl hne

/-- (c) with the forgers read off the list: after any list `ops'` of direct hook calls, every record
    keeps, for every asset key that is NOT the address of one of the calling contracts
    (`forgersOf ops'`), exactly the amount / exactly the NFTs it had — together with everything else
    `C18_honest_entries_frozen_reach` states. -/
theorem C18_forgers_only_reach (hd : Deployed w0) (hops : ∀ o ∈ ops', o.hookCaller ≠ none) :
    (∀ k l, alookup k 𝐰.mkt.listings = some l → ∃ l', alookup k 𝐰'.mkt.listings = some l' ∧
      l'.creator = l.creator ∧ l'.status = l.status ∧ l'.forSale.native = l.forSale.native ∧
      (∀ t, t ∉ forgersOf ops' → coinAmt l'.forSale.cw20 t = coinAmt l.forSale.cw20 t) ∧
      (∀ n : Nft, n.coll ∉ forgersOf ops' → (n ∈ l'.forSale.nfts ↔ n ∈ l.forSale.nfts))) ∧
    (∀ k b, alookup k 𝐰.mkt.buckets = some b → ∃ b', alookup k 𝐰'.mkt.buckets = some b' ∧
      b'.owner = b.owner ∧ b'.funds.native = b.funds.native ∧
      (∀ t, t ∉ forgersOf ops' → coinAmt b'.funds.cw20 t = coinAmt b.funds.cw20 t) ∧
      (∀ n : Nft, n.coll ∉ forgersOf ops' → (n ∈ b'.funds.nfts ↔ n ∈ b.funds.nfts))) := by
  obtain ⟨_, _, _, _, hl, hb⟩ := C18_honest_entries_frozen_reach ops ops' hd
    (· ∈ forgersOf ops') (· ∈ forgersOf ops') (forgedBy_forgersOf ops' hops)
  constructor
  · intro k l h
    obtain ⟨l', e, _, f1, _, f3, _, _, _, _, _, _, g1, g2, _, extra, g4, g5⟩ := hl k l h
    refine ⟨l', e, f1, f3, g1, g2, ?_⟩
    intro n hn
    rw [g4, List.mem_append]
    exact ⟨fun h => h.resolve_right (fun hx => hn (g5 n hx)), .inl⟩
  · intro k b h
    obtain ⟨b', e, f1, _, g1, g2, _, extra, g4, g5⟩ := hb k b h
    refine ⟨b', e, f1, g1, g2, ?_⟩
    intro n hn
    rw [g4, List.mem_append]
    exact ⟨fun h => h.resolve_right (fun hx => hn (g5 n hx)), .inl⟩

/-- (c) for the honest assets, under the condition of C01 only: if the direct hook calls in `ops'`
    are not made by honest token contracts (`Op.honest w0`: hostile contracts may forge freely),
    every record keeps exactly its amount of every honest CW20 token and exactly its NFTs of honest
    collections. -/
theorem C18_honest_tokens_frozen_reach (hd : Deployed w0)
    (hops : ∀ o ∈ ops', o.hookCaller ≠ none ∧ o.honest w0) :
    (∀ k l, alookup k 𝐰.mkt.listings = some l → ∃ l', alookup k 𝐰'.mkt.listings = some l' ∧
      l'.creator = l.creator ∧ l'.status = l.status ∧ l'.forSale.native = l.forSale.native ∧
      (∀ t, w0.isHonest20 t = true → coinAmt l'.forSale.cw20 t = coinAmt l.forSale.cw20 t) ∧
      (∀ n : Nft, w0.isHonest721 n.coll = true → (n ∈ l'.forSale.nfts ↔ n ∈ l.forSale.nfts))) ∧
    (∀ k b, alookup k 𝐰.mkt.buckets = some b → ∃ b', alookup k 𝐰'.mkt.buckets = some b' ∧
      b'.owner = b.owner ∧ b'.funds.native = b.funds.native ∧
      (∀ t, w0.isHonest20 t = true → coinAmt b'.funds.cw20 t = coinAmt b.funds.cw20 t) ∧
      (∀ n : Nft, w0.isHonest721 n.coll = true → (n ∈ b'.funds.nfts ↔ n ∈ b.funds.nfts))) := by
  have hf : ∀ o ∈ ops', o.forgedBy (fun c => w0.isHonest20 c = false)
      (fun c => w0.isHonest721 c = false) := by
    intro o ho
    obtain ⟨hne, hh⟩ := hops o ho
    cases o with
    | exec c f msg => cases msg <;> first | exact hh | exact absurd rfl hne
    | _ => exact absurd rfl hne
  obtain ⟨_, _, _, _, hl, hb⟩ := C18_honest_entries_frozen_reach ops ops' hd _ _ hf
  constructor
  · intro k l h
    obtain ⟨l', e, _, f1, _, f3, _, _, _, _, _, _, g1, g2, _, extra, g4, g5⟩ := hl k l h
    refine ⟨l', e, f1, f3, g1, fun t ht => g2 t (by simp [ht]), ?_⟩
    intro n hn
    rw [g4, List.mem_append]
    exact ⟨fun h => h.resolve_right (fun hx => by simp [g5 n hx] at hn), .inl⟩
  · intro k b h
    obtain ⟨b', e, f1, _, g1, g2, _, extra, g4, g5⟩ := hb k b h
    refine ⟨b', e, f1, g1, fun t ht => g2 t (by simp [ht]), ?_⟩
    intro n hn
    rw [g4, List.mem_append]
    exact ⟨fun h => h.resolve_right (fun hx => by simp [g5 n hx] at hn), .inl⟩

theorem c18Forgeries_forged : ∀ o ∈ c18Forgeries, o.forgedBy (· = 6) (· = 6) := by
  intro o ho
  simp only [c18Forgeries, List.mem_cons, List.mem_nil_iff, or_false] at ho
  rcases ho with rfl | rfl | rfl | rfl <;> exact rfl

/-- non-vacuity of (c): after the victim's deposits the hostile contract 6 forges four calls, all
    hook calls by a contract that is not an honest token, all accepted; the victim's bucket (1, 3)
    still holds its 10 of denom 0, now followed by junk keyed 6 -/
example : Deployed c18World ∧
    (∀ o ∈ c18Forgeries, o.forgedBy (· = 6) (· = 6)) ∧
    (∀ o ∈ c18Forgeries, o.hookCaller ≠ none ∧ o.honest c18World) ∧
    forgersOf c18Forgeries = [6, 6, 6, 6] ∧
    (step (run c18World c18Setup) forge20Bucket).2.ok = true ∧
    (step (run (run c18World c18Setup) [forge20Bucket]) forge721Bucket).2.ok = true ∧
    (step (run (run c18World c18Setup) [forge20Bucket, forge721Bucket]) forge20Listing).2.ok = true ∧
    (step (run (run c18World c18Setup) [forge20Bucket, forge721Bucket, forge20Listing])
      forge721Listing).2.ok = true ∧
    (alookup (1, 3) (run (run c18World c18Setup) c18Forgeries).mkt.buckets).map (·.funds) =
      some ⟨[⟨0, 10⟩], [⟨6, 5⟩], [⟨6, 1⟩]⟩ :=
  ⟨c18World_deployed, c18Forgeries_forged, by decide, by decide, by decide, by decide, by decide,
    by decide, by decide⟩

/-! ### (d) accounts cannot forge -/

/-- "an account cannot forge at all", in every reachable state: an address that is not a contract in
    the initial world (no operation ever adds a contract) is refused by both hooks, whatever sender it
    names, and the world is returned unchanged.  (Holds from ANY initial world.) -/
theorem C18_accounts_cannot_forge_reach (acct : Nat) (hacct : w0.kindOf acct = none)
    (funds : List Coin) (sender : RawAddr) (x : Nat) (inner : Option Inner)
    (hop : op = .exec acct funds (.receive sender x inner) ∨
      op = .exec acct funds (.receiveNft sender x inner)) :
    (step 𝐰 op).2.ok = false ∧ 𝐰₁ = 𝐰 := by
  have hk : ((run w0 ops).kindOf acct).isSome = false := by
    rw [run_kindOf_isSome, hacct]; rfl
  have hfail : (step 𝐰 op).2.ok = false := by
    cases hok : (step 𝐰 op).2.ok with
    | false => rfl
    | true =>
      rcases hop with rfl | rfl
      · obtain ⟨_, ci, hci, _⟩ := (C18_partial_gate_world 𝐰 acct funds sender x inner).1 hok
        rw [hci] at hk; cases hk
      · obtain ⟨_, h⟩ := (C18_partial_gate_world 𝐰 acct funds sender x inner).2 hok
        rw [h] at hk; cases hk
  exact ⟨hfail, C19_failed_noop noFault 𝐰 op hfail⟩

/-- non-vacuity of (d): account 2 is not a contract of the deployment `c18World`; the same two calls
    made by the contract 6 are accepted in the reached state -/
example : c18World.kindOf 2 = none ∧
    (step (run c18World c18Setup) (.exec 6 [] (.receive (.valid 1) 5 (some (.addToBucket 3))))).2.ok = true ∧
    (step (run c18World c18Setup) (.exec 6 [] (.receiveNft (.valid 1) 1 (some (.addToBucket 3))))).2.ok = true :=
  ⟨by decide, by decide, by decide⟩

end

#print axioms C18_forged_step_confined_reach
#print axioms C18_finalized_immune_reach
#print axioms C18_finalized_immune_run_reach
#print axioms C18_honest_entries_frozen_reach
#print axioms C18_forgers_only_reach
#print axioms C18_honest_tokens_frozen_reach
#print axioms C18_accounts_cannot_forge_reach
#print axioms c18World_deployed
end Fuzion
