/-
  Fuzion.Props.CompareSound — the correspondence check's state comparison `Fuzion.Cmp.compDiffs`
  (Driver/Compare.lean, trusted machinery) is COMPLETE — it looks at every field: if it reports no
  difference, the implementation's world and the model's world are the same up to the order of
  list entries — and EXACT — worlds that are the same up to order are never reported as different
  (under distinct-key side conditions that hold in every state the model reaches).

  The comparison works on canonical forms (`Fuzion.Codec.canonListings`, `sortCoins`, `sortNats`,
  `ledgerEq`, …).  The theorems characterise "equal canonical forms" by statements that do not
  mention sorting:

    `WorldEquiv a b`   field by field: lists are permutations of each other (`List.Perm`), keyed
                       record lists agree `UpToOrder` (a permutation followed by a pointwise
                       relation: equal keys, equivalent records), id sets have the same elements,
                       bank / cw20 ledgers agree as total functions (`lget`), the NFT ledger as a
                       partial map (`alookup`), scalars are equal.
                       An equivalence relation (`WorldEquiv.refl/symm/trans`).

  Main results
    `compDiffs_complete`        compDiffs = [] → WorldEquiv ∧ same sorted message codes
    `compDiffs_complete_msgs`   … → the message codes are permutations of each other
    `compDiffs_complete_matched`  … → after reordering, the implementation's messages match the
                                model's one by one (`ImplMsgMatches`: no codes, no sorting)
    `cmp_exact_<X>`             per check `X` ∈ L B U F G R K T N A C M a01 a08 a09 a03:
                                WorldEquiv (+ the side condition that check needs) → `X` passes
    `compDiffs_exact_upto_a01`  WorldEquiv + codes Perm + distinct keys (model side) → only "a01"
                                can be reported
    `compDiffs_exact`           … + distinct NFT-ledger keys, same `self` → compDiffs = []
    `compDiffs_nil_iff`         both directions in one statement
    `cmp_keysOk_stepF`, `cmp_keysOk_run`    the distinct-key side condition holds after every model
                                step from a state satisfying the id invariant / along every history
    `cmp_stepF_static`, `cmp_run_static`    the five fields `compDiffs` does not compare (`self`,
                                `pool`, `regAddr`, `junoD`, `usdcD`) are never written by the model
    `cmp_checkIds_congr`, `cmp_checkWF_congr`, `cmp_checkC01_congr`   the state oracles o09, o12,
                                o01 do not see the order either
  Findings / counterexamples (all evaluated)
    `cmp_nft_owner0_detected`   former gap, closed: "N" used to compare the NFT ledger through `lget`
                                (a token owned by address 0, a real account, = a missing token);
                                `nftLedgerEq` compares by `alookup` and the pair is now reported
    `cmp_counter_dupKeys`       without distinct keys the keyed checks are order-sensitive
-/
import Fuzion.Lemmas.CompareLemmas
import Fuzion.Lemmas.OracleLemmas
import Fuzion.Props.C09
import Fuzion.Props.C14
namespace Fuzion
open Fuzion.Codec Fuzion.Cmp

/-! ## the intended equivalence -/

/-- balances: each of the three asset lists is a permutation of the other's -/
def GBalEquiv (a b : GBal) : Prop :=
  a.native.Perm b.native ∧ a.cw20.Perm b.cw20 ∧ a.nfts.Perm b.nfts

/-- listings: all scalar fields equal, the two balances equivalent -/
def ListingEquiv (a b : Listing) : Prop :=
  a.creator = b.creator ∧ a.id = b.id ∧ a.finalizedAt = b.finalizedAt ∧ a.expiresAt = b.expiresAt ∧
  a.status = b.status ∧ a.claimant = b.claimant ∧ a.whitelist = b.whitelist ∧
  GBalEquiv a.forSale b.forSale ∧ GBalEquiv a.ask b.ask ∧ a.fee = b.fee

/-- buckets: owner and pending fee equal, funds equivalent -/
def BucketEquiv (a b : Bucket) : Prop :=
  a.owner = b.owner ∧ GBalEquiv a.funds b.funds ∧ a.fee = b.fee

instance (a b : GBal) : Decidable (GBalEquiv a b) := by unfold GBalEquiv; infer_instance
instance (a b : Listing) : Decidable (ListingEquiv a b) := by unfold ListingEquiv; infer_instance
instance (a b : Bucket) : Decidable (BucketEquiv a b) := by unfold BucketEquiv; infer_instance

/-- Two worlds are the same up to the order of list entries.  Every field of `World` and of
    `Market` occurs, except `self`, `pool`, `regAddr`, `junoD`, `usdcD`: `compDiffs` does not
    compare these five because they are configuration constants which the model copies from the
    pre-state (`cmp_stepF_static` below: `stepF` never changes them).

    * `listings`, `buckets`: `UpToOrder R l₁ l₂ := ∃ l', l₁.Perm l' ∧ cmpAll2 R l' l₂` — after
      reordering, the two lists have the same length and at every position the storage keys are
      equal and the records equivalent (`cmp_upToOrder_iff_index` is the form with indices:
      `∃ l', l₁.Perm l' ∧ l'.length = l₂.length ∧ ∀ i h₁ h₂, R l'[i] l₂[i]`);
    * `usedL`, `usedB`: the id sets have the same elements (multiplicity is not compared:
      `sortNats` erases duplicates);
    * `bank`, `cw20`: equal as total functions `lget · k` (missing key = 0: a zero entry and a
      missing entry are the same balance);
    * `nft`: the ledger `(collection, token id) ↦ owner` is compared as a partial map (`alookup`,
      what `nftLedgerEq` decides), so that "owned by address 0" and "no such token" differ — with
      the former `lget` reading they did not (`cmp_nft_owner0_detected`). -/
structure WorldEquiv (a b : World) : Prop where
  listings : UpToOrder (fun p q => p.1 = q.1 ∧ ListingEquiv p.2 q.2) a.mkt.listings b.mkt.listings
  buckets : UpToOrder (fun p q => p.1 = q.1 ∧ BucketEquiv p.2 q.2) a.mkt.buckets b.mkt.buckets
  usedL : ∀ id, id ∈ a.mkt.listingUsed ↔ id ∈ b.mkt.listingUsed
  usedB : ∀ id, id ∈ a.mkt.bucketUsed ↔ id ∈ b.mkt.bucketUsed
  fee : a.mkt.feeKind = b.mkt.feeKind ∧ a.mkt.feeSince = b.mkt.feeSince
  registryItem : a.mkt.registry = b.mkt.registry
  reg : a.reg.Perm b.reg
  bank : ∀ k, lget a.bank k = lget b.bank k
  cw20 : ∀ k, lget a.cw20 k = lget b.cw20 k
  nft : ∀ k, alookup k a.nft = alookup k b.nft
  contracts : a.contracts.Perm b.contracts
  clock : a.nowNs = b.nowNs ∧ a.height = b.height

/-! ### the equivalences and the canonical forms -/

/-- `canonGBal` identifies exactly the equivalent balances -/
theorem cmp_canonGBal_iff {a b : GBal} : canonGBal a = canonGBal b ↔ GBalEquiv a b :=
  cmp_canonGBal_eq_iff

/-- `canonListing` identifies exactly the equivalent listings -/
theorem cmp_canonListing_iff {a b : Listing} : canonListing a = canonListing b ↔ ListingEquiv a b := by
  rw [cmp_canonListing_eq_iff, cmp_canonGBal_iff, cmp_canonGBal_iff]; rfl

/-- `canonBucket` identifies exactly the equivalent buckets -/
theorem cmp_canonBucket_iff {a b : Bucket} : canonBucket a = canonBucket b ↔ BucketEquiv a b := by
  rw [cmp_canonBucket_eq_iff, cmp_canonGBal_iff]; rfl

/-- `GBalEquiv` is reflexive -/
theorem GBalEquiv.refl (a : GBal) : GBalEquiv a a := ⟨.refl _, .refl _, .refl _⟩
/-- `ListingEquiv` is reflexive -/
theorem ListingEquiv.refl (a : Listing) : ListingEquiv a a :=
  ⟨rfl, rfl, rfl, rfl, rfl, rfl, rfl, .refl _, .refl _, rfl⟩
/-- `BucketEquiv` is reflexive -/
theorem BucketEquiv.refl (a : Bucket) : BucketEquiv a a := ⟨rfl, .refl _, rfl⟩

/-- a list agrees with itself up to order, for a reflexive relation -/
theorem cmp_upToOrder_refl {α : Type} {R : α → α → Prop} (h : ∀ a, R a a) (l : List α) :
    UpToOrder R l l := (UpToOrder.of_perm (.refl l)).mono (fun a _ e => e ▸ h a)

/-- every world is equivalent to itself -/
theorem WorldEquiv.refl (a : World) : WorldEquiv a a where
  listings := cmp_upToOrder_refl (fun p => ⟨rfl, ListingEquiv.refl p.2⟩) _
  buckets := cmp_upToOrder_refl (fun p => ⟨rfl, BucketEquiv.refl p.2⟩) _
  usedL := fun _ => Iff.rfl
  usedB := fun _ => Iff.rfl
  fee := ⟨rfl, rfl⟩
  registryItem := rfl
  reg := .refl _
  bank := fun _ => rfl
  cw20 := fun _ => rfl
  nft := fun _ => rfl
  contracts := .refl _
  clock := ⟨rfl, rfl⟩


/-- `GBalEquiv` is symmetric -/
theorem GBalEquiv.symm {a b : GBal} (h : GBalEquiv a b) : GBalEquiv b a :=
  ⟨h.1.symm, h.2.1.symm, h.2.2.symm⟩
/-- `GBalEquiv` is transitive -/
theorem GBalEquiv.trans {a b c : GBal} (h : GBalEquiv a b) (h' : GBalEquiv b c) : GBalEquiv a c :=
  ⟨h.1.trans h'.1, h.2.1.trans h'.2.1, h.2.2.trans h'.2.2⟩
/-- `ListingEquiv` is symmetric -/
theorem ListingEquiv.symm {a b : Listing} (h : ListingEquiv a b) : ListingEquiv b a := by
  obtain ⟨h1, h2, h3, h4, h5, h6, h7, h8, h9, h10⟩ := h
  exact ⟨h1.symm, h2.symm, h3.symm, h4.symm, h5.symm, h6.symm, h7.symm, h8.symm, h9.symm, h10.symm⟩
/-- `ListingEquiv` is transitive -/
theorem ListingEquiv.trans {a b c : Listing} (h : ListingEquiv a b) (h' : ListingEquiv b c) :
    ListingEquiv a c := by
  obtain ⟨h1, h2, h3, h4, h5, h6, h7, h8, h9, h10⟩ := h
  obtain ⟨g1, g2, g3, g4, g5, g6, g7, g8, g9, g10⟩ := h'
  exact ⟨h1.trans g1, h2.trans g2, h3.trans g3, h4.trans g4, h5.trans g5, h6.trans g6, h7.trans g7,
    h8.trans g8, h9.trans g9, h10.trans g10⟩
/-- `BucketEquiv` is symmetric -/
theorem BucketEquiv.symm {a b : Bucket} (h : BucketEquiv a b) : BucketEquiv b a :=
  ⟨h.1.symm, h.2.1.symm, h.2.2.symm⟩
/-- `BucketEquiv` is transitive -/
theorem BucketEquiv.trans {a b c : Bucket} (h : BucketEquiv a b) (h' : BucketEquiv b c) :
    BucketEquiv a c := ⟨h.1.trans h'.1, h.2.1.trans h'.2.1, h.2.2.trans h'.2.2⟩

/-- `WorldEquiv` is symmetric … -/
theorem WorldEquiv.symm {a b : World} (h : WorldEquiv a b) : WorldEquiv b a where
  listings := h.listings.symm.mono (fun _ _ hpq => ⟨hpq.1.symm, hpq.2.symm⟩)
  buckets := h.buckets.symm.mono (fun _ _ hpq => ⟨hpq.1.symm, hpq.2.symm⟩)
  usedL := fun id => (h.usedL id).symm
  usedB := fun id => (h.usedB id).symm
  fee := ⟨h.fee.1.symm, h.fee.2.symm⟩
  registryItem := h.registryItem.symm
  reg := h.reg.symm
  bank := fun k => (h.bank k).symm
  cw20 := fun k => (h.cw20 k).symm
  nft := fun k => (h.nft k).symm
  contracts := h.contracts.symm
  clock := ⟨h.clock.1.symm, h.clock.2.symm⟩

/-- … and transitive: an equivalence relation on worlds -/
theorem WorldEquiv.trans {a b c : World} (h : WorldEquiv a b) (h' : WorldEquiv b c) :
    WorldEquiv a c where
  listings := (h.listings.trans h'.listings).mono
    (fun _ _ ⟨_, h1, h2⟩ => ⟨h1.1.trans h2.1, h1.2.trans h2.2⟩)
  buckets := (h.buckets.trans h'.buckets).mono
    (fun _ _ ⟨_, h1, h2⟩ => ⟨h1.1.trans h2.1, h1.2.trans h2.2⟩)
  usedL := fun id => (h.usedL id).trans (h'.usedL id)
  usedB := fun id => (h.usedB id).trans (h'.usedB id)
  fee := ⟨h.fee.1.trans h'.fee.1, h.fee.2.trans h'.fee.2⟩
  registryItem := h.registryItem.trans h'.registryItem
  reg := h.reg.trans h'.reg
  bank := fun k => (h.bank k).trans (h'.bank k)
  cw20 := fun k => (h.cw20 k).trans (h'.cw20 k)
  nft := fun k => (h.nft k).trans (h'.nft k)
  contracts := h.contracts.trans h'.contracts
  clock := ⟨h.clock.1.trans h'.clock.1, h.clock.2.trans h'.clock.2⟩

/-! ### example worlds (non-vacuity)

`List.mergeSort` is defined by well-founded recursion, so `decide` alone cannot evaluate
`compDiffs`; the tactic `cmp_eval` (Lemmas/CompareLemmas.lean) first rewrites every sort into the
structurally recursive insertion sort `cmpISort` — by the proved equations `cmp_sortCodes_eval`, …,
the keyed ones under "distinct keys", checked by `decide` — and then calls `decide`. -/
namespace CmpEx

def l1 : Listing :=
  { creator := 1, id := 1, finalizedAt := none, expiresAt := none, status := .preparing,
    claimant := none, whitelist := none,
    forSale := ⟨[⟨0, 10⟩, ⟨1, 4⟩], [⟨30, 7⟩], [⟨20, 1⟩, ⟨20, 3⟩]⟩,
    ask := ⟨[⟨1, 5⟩, ⟨0, 3⟩], [], []⟩, fee := none }
/-- `l1` with every asset list in another order -/
def l1' : Listing :=
  { l1 with forSale := ⟨[⟨1, 4⟩, ⟨0, 10⟩], [⟨30, 7⟩], [⟨20, 3⟩, ⟨20, 1⟩]⟩,
            ask := ⟨[⟨0, 3⟩, ⟨1, 5⟩], [], []⟩ }
def l2 : Listing :=
  { creator := 2, id := 2, finalizedAt := some 100, expiresAt := some 700000000100, status := .closed,
    claimant := some 2, whitelist := some 1,
    forSale := ⟨[⟨0, 995⟩], [], []⟩, ask := ⟨[], [⟨30, 1⟩], []⟩, fee := some ⟨0, 5⟩ }
def b1 : Bucket := ⟨2, ⟨[⟨0, 3⟩, ⟨1, 5⟩], [⟨30, 2⟩, ⟨31, 1⟩], []⟩, none⟩
/-- `b1` with every asset list in another order -/
def b1' : Bucket := ⟨2, ⟨[⟨1, 5⟩, ⟨0, 3⟩], [⟨31, 1⟩, ⟨30, 2⟩], []⟩, none⟩
def b2 : Bucket := ⟨1, ⟨[], [], [⟨20, 2⟩]⟩, some ⟨1, 2⟩⟩

def mA : Market :=
  { listings := [((1, 1), l1), ((2, 2), l2)], buckets := [((2, 1), b1), ((1, 2), b2)],
    listingUsed := [0, 1, 2], bucketUsed := [0, 1, 2], feeKind := .juno, feeSince := 3,
    registry := some 7 }
def mB : Market :=
  { listings := [((2, 2), l2), ((1, 1), l1')], buckets := [((1, 2), b2), ((2, 1), b1')],
    listingUsed := [2, 0, 1, 2], bucketUsed := [1, 2, 0], feeKind := .juno, feeSince := 3,
    registry := some 7 }

/-- the "implementation's" world -/
def wA : World :=
  { self := 9, pool := 8, regAddr := 7, junoD := 0, usdcD := 1, nowNs := 1000, height := 5,
    mkt := mA,
    reg := [(20, ⟨1, 100, 3⟩), (21, ⟨2, 50, 4⟩)],
    bank := [((9, 0), 1013), ((9, 1), 11), ((1, 0), 5)],
    cw20 := [((30, 9), 9), ((31, 9), 1), ((30, 1), 2)],
    nft := [((20, 1), 9), ((20, 2), 9), ((20, 3), 9), ((20, 4), 1)],
    contracts := [(9, ⟨none, 0, false, false⟩), (20, ⟨some 1, 2, false, false⟩),
                  (30, ⟨none, 1, true, false⟩), (31, ⟨none, 1, true, false⟩)] }

/-- the "model's" world: every list of `wA` in another order (inside the records too), a repeated
    used id, and a zero entry in the bank ledger -/
def wB : World :=
  { wA with
    mkt := mB,
    reg := [(21, ⟨2, 50, 4⟩), (20, ⟨1, 100, 3⟩)],
    bank := [((1, 0), 5), ((9, 1), 11), ((2, 0), 0), ((9, 0), 1013)],
    cw20 := [((30, 1), 2), ((31, 9), 1), ((30, 9), 9)],
    nft := [((20, 4), 1), ((20, 3), 9), ((20, 2), 9), ((20, 1), 9)],
    contracts := [(31, ⟨none, 1, true, false⟩), (30, ⟨none, 1, true, false⟩),
                  (20, ⟨some 1, 2, false, false⟩), (9, ⟨none, 0, false, false⟩)] }

/-- the implementation's messages … -/
def io : ImplOutcome :=
  ⟨true, false,
   [.msg (.bankSend 1 [⟨0, 1⟩, ⟨1, 2⟩]), .msg (.cw20Transfer 30 1 2), .pool true 9 [⟨0, 5⟩]], []⟩
/-- … and the model's: another order, the coins of the bank message in another order -/
def mo : Outcome :=
  ⟨true, none, [.fundPool 9 ⟨0, 5⟩, .cw20Transfer 30 1 2, .bankSend 1 [⟨1, 2⟩, ⟨0, 1⟩]]⟩

/-- a freshly instantiated marketplace in the chain state of `wA` -/
def w0 : World := { wA with mkt := instantiate 0 (some 7) }
/-- a deposit, time, a registry update by the collection's admin, an admin change -/
def ops : List Op :=
  [.exec 1 [⟨0, 5⟩] (.createBucket 1), .advance 0 100,
   .royalty 1 (.update (.valid 20) none (some 200)), .setAdmin 1 20 none]

/-- marketplace at address 0, holding token `(20, 5)` … -/
def wZ1 : World := { wA with self := 0, nft := ((20, 5), 0) :: wA.nft }
/-- … and the same world without that token -/
def wZ2 : World := { wA with self := 0 }
/-- `wB` (= `wA` with every list reordered) with the marketplace at address 0 -/
def wZ3 : World := { wB with self := 0 }

end CmpEx
open CmpEx

/-! ## completeness -/

/-- "L": equal canonical listing tables → the tables agree up to order, key by key, record by
    record up to `ListingEquiv` (no hypothesis) -/
theorem cmp_complete_L {a b : List ((Nat × Nat) × Listing)} (h : canonListings a = canonListings b) :
    UpToOrder (fun p q => p.1 = q.1 ∧ ListingEquiv p.2 q.2) a b :=
  (cmp_canonKeyed_complete canonListing _ h).mono (fun _ _ h => ⟨h.1, cmp_canonListing_iff.1 h.2⟩)

/-- "B": the same for buckets -/
theorem cmp_complete_B {a b : List ((Nat × Nat) × Bucket)} (h : canonBuckets a = canonBuckets b) :
    UpToOrder (fun p q => p.1 = q.1 ∧ BucketEquiv p.2 q.2) a b :=
  (cmp_canonKeyed_complete canonBucket _ h).mono (fun _ _ h => ⟨h.1, cmp_canonBucket_iff.1 h.2⟩)

/-- **Completeness of the state comparison.**  If `compDiffs` reports no difference between the
    implementation's post-state `iw` and the model's post-state `mw`, the two worlds are the same
    up to the order of list entries (`WorldEquiv`: every field of `World` / `Market` but the five
    static ones), and both sides emitted the same sorted list of message codes.  Only the twelve
    component checks `L B U F G R K T N A C M` are used; the abstractions `a01 a08 a09 a03` are
    implied by them (see `compDiffs_exact`). -/
theorem compDiffs_complete {iw mw : World} {io : ImplOutcome} {mo : Outcome}
    (h : compDiffs iw mw io mo = []) :
    WorldEquiv iw mw ∧ sortCodes (io.msgs.map implMsgCode) = sortCodes (mo.msgs.map outMsgCode) := by
  obtain ⟨hL, hB, hU, hF, hG, hR, hK, hT, hN, hA, hC, hM, _⟩ := cmp_compDiffs_nil_iff.1 h
  exact ⟨{ listings := cmp_complete_L hL
           buckets := cmp_complete_B hB
           usedL := cmp_sortNats_eq_iff.1 hU.1
           usedB := cmp_sortNats_eq_iff.1 hU.2
           fee := hF
           registryItem := hG
           reg := cmp_sortByFst_perm hR
           bank := cmp_ledgerEq_iff.1 hK
           cw20 := cmp_ledgerEq_iff.1 hT
           nft := cmp_nftLedgerEq_iff.1 hN
           contracts := cmp_sortByFst_perm hA
           clock := hC }, hM⟩

/-- … and the emitted messages are the same multiset of codes -/
theorem compDiffs_complete_msgs {iw mw : World} {io : ImplOutcome} {mo : Outcome}
    (h : compDiffs iw mw io mo = []) :
    (io.msgs.map implMsgCode).Perm (mo.msgs.map outMsgCode) :=
  cmp_sortCodes_eq_iff.1 (compDiffs_complete h).2

/-- messages that mean the same: equal, or bank sends to the same account of the same coins in
    another order -/
def OutMsgEquiv : OutMsg → OutMsg → Prop
  | .bankSend t cs, .bankSend t' cs' => t = t' ∧ cs.Perm cs'
  | a, b => a = b

/-- an implementation message matches a model message: a parsed bank / cw20 / cw721 message that
    means the same, or a well-formed community-pool deposit of exactly one coin by the model's
    depositor; a malformed pool message or an unknown message matches nothing -/
def ImplMsgMatches : ImplMsg → OutMsg → Prop
  | .msg m', m => OutMsgEquiv m' m
  | .pool true d cs, m => ∃ c, cs = [c] ∧ m = .fundPool d c
  | .pool false _ _, _ => False
  | .unknown, _ => False

/-- equal codes: the messages mean the same (`sortCoins` inside the code of a bank send) -/
theorem cmp_outMsgCode_eq_iff {a b : OutMsg} : outMsgCode a = outMsgCode b ↔ OutMsgEquiv a b := by
  cases a with
  | bankSend t cs =>
    cases b with
    | bankSend t' cs' =>
      simp only [outMsgCode, OutMsgEquiv, List.cons.injEq, true_and]
      exact and_congr_right (fun _ => ⟨fun h => cmp_sortCoins_eq_iff.1 (cmp_coinCodes_inj h),
        fun h => by rw [cmp_sortCoins_eq_iff.2 h]⟩)
    | _ => simp [outMsgCode, OutMsgEquiv]
  | cw20Transfer t to a => cases b <;> simp [outMsgCode, OutMsgEquiv]
  | nftTransfer c t to => cases b <;> simp [outMsgCode, OutMsgEquiv]
  | fundPool d c =>
    cases b with
    | fundPool d' c' => cases c; cases c'; simp [outMsgCode, OutMsgEquiv]
    | _ => simp [outMsgCode, OutMsgEquiv]

/-- an implementation message has the code of a model message iff it matches it -/
theorem cmp_implMsgCode_eq_iff {i : ImplMsg} {m : OutMsg} :
    implMsgCode i = outMsgCode m ↔ ImplMsgMatches i m := by
  cases i with
  | msg m' => exact cmp_outMsgCode_eq_iff
  | unknown => cases m <;> simp [implMsgCode, outMsgCode, ImplMsgMatches]
  | pool wf d cs =>
    cases wf with
    | false => cases m <;> simp [implMsgCode, outMsgCode, ImplMsgMatches]
    | true =>
      cases m with
      | fundPool d' c =>
        simp only [implMsgCode, outMsgCode, ImplMsgMatches, List.cons.injEq, true_and,
          OutMsg.fundPool.injEq]
        constructor
        · rintro ⟨rfl, h⟩
          exact ⟨c, cmp_coinCodes_inj (l' := [c]) (by simpa using h), rfl, rfl⟩
        · rintro ⟨c0, rfl, rfl, rfl⟩
          simp
      | _ => simp [implMsgCode, outMsgCode, ImplMsgMatches]

/-- … stated without codes: after reordering, the implementation's messages match the model's one
    by one (`ImplMsgMatches`) -/
theorem compDiffs_complete_matched {iw mw : World} {io : ImplOutcome} {mo : Outcome}
    (h : compDiffs iw mw io mo = []) : UpToOrder ImplMsgMatches io.msgs mo.msgs :=
  (UpToOrder.of_map_perm (compDiffs_complete_msgs h)).mono (fun _ _ => cmp_implMsgCode_eq_iff.1)

/-- conversely, matching messages have the same multiset of codes (the hypothesis of `cmp_exact_M`
    and `compDiffs_exact`) -/
theorem cmp_codes_perm_of_matched {io : ImplOutcome} {mo : Outcome}
    (h : UpToOrder ImplMsgMatches io.msgs mo.msgs) :
    (io.msgs.map implMsgCode).Perm (mo.msgs.map outMsgCode) :=
  h.map_perm (f := implMsgCode) (g := outMsgCode) (fun _ _ => cmp_implMsgCode_eq_iff.2)

/-- non-vacuity: the two example worlds differ in the order of every list, and `compDiffs`
    reports nothing -/
theorem CmpEx.nil : compDiffs wA wB io mo = [] := by cmp_eval
example : wA.mkt.listings ≠ wB.mkt.listings ∧ wA.mkt.buckets ≠ wB.mkt.buckets ∧
    wA.mkt.listingUsed ≠ wB.mkt.listingUsed ∧ wA.reg ≠ wB.reg ∧ wA.bank ≠ wB.bank ∧
    wA.cw20 ≠ wB.cw20 ∧ wA.nft ≠ wB.nft ∧ wA.contracts ≠ wB.contracts ∧
    io.msgs.map implMsgCodeE ≠ mo.msgs.map outMsgCodeE := by decide
/-- … so they are equivalent (hypothesis of every lemma below) -/
theorem CmpEx.equiv : WorldEquiv wA wB := (compDiffs_complete CmpEx.nil).1
/-- … and their message codes agree as multisets -/
theorem CmpEx.msgs : (io.msgs.map implMsgCode).Perm (mo.msgs.map outMsgCode) :=
  compDiffs_complete_msgs CmpEx.nil

/-- the example's messages match one by one after reordering; the pool deposit `.pool true 9 [c]`
    matches the model's `.fundPool 9 c` -/
example : UpToOrder ImplMsgMatches io.msgs mo.msgs := compDiffs_complete_matched CmpEx.nil
example : ImplMsgMatches (.pool true 9 [⟨0, 5⟩]) (.fundPool 9 ⟨0, 5⟩) := ⟨_, rfl, rfl⟩
example : ImplMsgMatches (.msg (.bankSend 1 [⟨0, 1⟩, ⟨1, 2⟩])) (.bankSend 1 [⟨1, 2⟩, ⟨0, 1⟩]) :=
  ⟨rfl, by decide⟩

/-! ### every component is looked at: one field changed, the component (and the abstractions
    that read it) is reported -/

-- L: a pending fee (read by the accounting abstraction a01; a08 erases fees)
example : compDiffs wA { wB with mkt := { mB with
    listings := [((2, 2), { l2 with fee := some ⟨0, 6⟩ }), ((1, 1), l1')] } } io mo = ["L", "a01"] := by
  cmp_eval
-- L: a claimant (read by a08 = C08's view and a03 = who may claim)
example : compDiffs wA { wB with mkt := { mB with
    listings := [((2, 2), { l2 with claimant := some 3 }), ((1, 1), l1')] } } io mo =
    ["L", "a08", "a03"] := by cmp_eval
-- L: an ask amount
example : compDiffs wA { wB with mkt := { mB with
    listings := [((2, 2), l2), ((1, 1), { l1' with ask := ⟨[⟨0, 3⟩, ⟨1, 6⟩], [], []⟩ })] } } io mo =
    ["L", "a08"] := by cmp_eval
-- L: the storage key
example : compDiffs wA { wB with mkt := { mB with
    listings := [((2, 2), l2), ((3, 1), l1')] } } io mo = ["L", "a08", "a03"] := by cmp_eval
-- L: a record missing
example : compDiffs wA { wB with mkt := { mB with listings := [((2, 2), l2)] } } io mo =
    ["L", "a01", "a08", "a09", "a03"] := by cmp_eval
-- B: an amount in a bucket
example : compDiffs wA { wB with mkt := { mB with
    buckets := [((1, 2), b2), ((2, 1), { b1' with funds := ⟨[⟨1, 5⟩, ⟨0, 4⟩], [⟨31, 1⟩, ⟨30, 2⟩], []⟩ })] } }
    io mo = ["B", "a01"] := by cmp_eval
-- B: the owner of a bucket
example : compDiffs wA { wB with mkt := { mB with
    buckets := [((1, 2), { b2 with owner := 3 }), ((2, 1), b1')] } } io mo = ["B", "a03"] := by cmp_eval
-- U: used listing ids / used bucket ids
example : compDiffs wA { wB with mkt := { mB with listingUsed := [2, 0, 1, 7] } } io mo =
    ["U", "a09"] := by cmp_eval
example : compDiffs wA { wB with mkt := { mB with bucketUsed := [2, 0] } } io mo = ["U", "a09"] := by
  cmp_eval
-- F: fee item
example : compDiffs wA { wB with mkt := { mB with feeSince := 4 } } io mo = ["F"] := by cmp_eval
example : compDiffs wA { wB with mkt := { mB with feeKind := .usdc } } io mo = ["F"] := by cmp_eval
-- G: registry item
example : compDiffs wA { wB with mkt := { mB with registry := none } } io mo = ["G"] := by cmp_eval
-- R: a registry entry
example : compDiffs wA { wB with reg := [(21, ⟨2, 51, 4⟩), (20, ⟨1, 100, 3⟩)] } io mo = ["R"] := by
  cmp_eval
-- K: a user's balance / the marketplace's balance
example : compDiffs wA { wB with bank := [((1, 0), 6), ((9, 1), 11), ((9, 0), 1013)] } io mo = ["K"] := by
  cmp_eval
example : compDiffs wA { wB with bank := [((1, 0), 5), ((9, 1), 12), ((9, 0), 1013)] } io mo =
    ["K", "a01"] := by cmp_eval
-- T: a user's token balance / the marketplace's
example : compDiffs wA { wB with cw20 := [((30, 1), 3), ((31, 9), 1), ((30, 9), 9)] } io mo = ["T"] := by
  cmp_eval
example : compDiffs wA { wB with cw20 := [((30, 1), 2), ((31, 9), 1), ((30, 9), 8)] } io mo =
    ["T", "a01"] := by cmp_eval
-- N: a user's NFT / an NFT of the marketplace
example : compDiffs wA { wB with nft := [((20, 4), 2), ((20, 3), 9), ((20, 2), 9), ((20, 1), 9)] } io mo =
    ["N"] := by cmp_eval
example : compDiffs wA { wB with nft := [((20, 4), 1), ((20, 3), 1), ((20, 2), 9), ((20, 1), 9)] } io mo =
    ["N", "a01"] := by cmp_eval
-- A: the admin of a contract
example : compDiffs wA { wB with contracts := [(31, ⟨none, 1, true, false⟩), (30, ⟨none, 1, true, false⟩),
    (20, ⟨some 2, 2, false, false⟩), (9, ⟨none, 0, false, false⟩)] } io mo = ["A"] := by cmp_eval
-- C: clock
example : compDiffs wA { wB with nowNs := 1001 } io mo = ["C"] := by cmp_eval
example : compDiffs wA { wB with height := 6 } io mo = ["C"] := by cmp_eval
-- M: an amount in a message / a message missing
example : compDiffs wA wB io { mo with
    msgs := [.fundPool 9 ⟨0, 5⟩, .cw20Transfer 30 1 3, .bankSend 1 [⟨1, 2⟩, ⟨0, 1⟩]] } = ["M"] := by
  cmp_eval
example : compDiffs wA wB io { mo with msgs := [.fundPool 9 ⟨0, 5⟩, .cw20Transfer 30 1 2] } = ["M"] := by
  cmp_eval

/-! ### what the comparison does NOT see -/

/-- the five static fields: `pool`, `regAddr`, `junoD`, `usdcD` are not read at all … -/
example : compDiffs wA { wB with pool := 77, regAddr := 78, junoD := 5, usdcD := 6 } io mo = [] := by
  cmp_eval
/-- … `self` only through the accounting abstraction (whose defect is taken at `w.self`) -/
example : compDiffs wA { wB with self := 10 } io mo = ["a01"] := by cmp_eval

/-- FORMER FINDING, now closed.  The "N" check used to compare the NFT ledger through `lget`
    (missing key = 0), so a token owned by address 0 — a real account: addresses are numbered from
    0 (PROTOCOL.md §1) — was not distinguished from a token that does not exist, and this pair (the
    model's world has an extra token `(20, 5)` owned by address 0) gave `compDiffs = []`.  With
    `nftLedgerEq` (comparison by `alookup`) the pair is reported, although the two ledgers still
    agree as `lget` functions. -/
theorem cmp_nft_owner0_detected :
    compDiffs wA { wB with nft := wB.nft ++ [((20, 5), 0)] } io mo = ["N"] ∧
    ledgerEq wA.nft (wB.nft ++ [((20, 5), 0)]) = true ∧
    alookup (20, 5) wA.nft = none ∧ alookup (20, 5) (wB.nft ++ [((20, 5), 0)]) = some 0 :=
  ⟨by cmp_eval, by decide, by decide, by decide⟩

/-! ## exactness

`List.mergeSort` is a stable sort: entries the comparison cannot tell apart keep their input
order.  So equal canonical forms for permuted inputs need the comparison to be antisymmetric on the
entries.  For `sortCoins`, `sortNfts`, `sortCodes`, `sortNats` the sort key is the whole element
(no hypothesis); `canonListings`, `canonBuckets`, `canonReg`, `canonContracts` sort by the storage
key only, so they need distinct keys (`cmp_counter_dupKeys`: without, the check is order-sensitive). -/

/-- "L": tables with distinct keys that agree up to order have the same canonical form -/
theorem cmp_exact_L {a b : List ((Nat × Nat) × Listing)} (hnd : (akeys a).Nodup)
    (h : UpToOrder (fun p q => p.1 = q.1 ∧ ListingEquiv p.2 q.2) a b) :
    canonListings a = canonListings b :=
  cmp_canonKeyed_exact canonListing hnd (h.mono (fun _ _ h => ⟨h.1, cmp_canonListing_iff.2 h.2⟩))

/-- "B" -/
theorem cmp_exact_B {a b : List ((Nat × Nat) × Bucket)} (hnd : (akeys a).Nodup)
    (h : UpToOrder (fun p q => p.1 = q.1 ∧ BucketEquiv p.2 q.2) a b) :
    canonBuckets a = canonBuckets b :=
  cmp_canonKeyed_exact canonBucket hnd (h.mono (fun _ _ h => ⟨h.1, cmp_canonBucket_iff.2 h.2⟩))

/-- "U": id lists with the same elements have the same `sortNats` (no hypothesis) -/
theorem cmp_exact_U {a b : World} (h : WorldEquiv a b) :
    sortNats a.mkt.listingUsed = sortNats b.mkt.listingUsed ∧
    sortNats a.mkt.bucketUsed = sortNats b.mkt.bucketUsed :=
  ⟨cmp_sortNats_eq_iff.2 h.usedL, cmp_sortNats_eq_iff.2 h.usedB⟩

/-- "F" -/
theorem cmp_exact_F {a b : World} (h : WorldEquiv a b) :
    a.mkt.feeKind = b.mkt.feeKind ∧ a.mkt.feeSince = b.mkt.feeSince := h.fee

/-- "G" -/
theorem cmp_exact_G {a b : World} (h : WorldEquiv a b) : a.mkt.registry = b.mkt.registry :=
  h.registryItem

/-- "R": registries with distinct collections that are permutations of each other -/
theorem cmp_exact_R {a b : World} (hnd : (akeys a.reg).Nodup) (h : WorldEquiv a b) :
    canonReg a.reg = canonReg b.reg := cmp_sortByFst_exact hnd h.reg

/-- "K" (no hypothesis) -/
theorem cmp_exact_K {a b : World} (h : WorldEquiv a b) : ledgerEq a.bank b.bank = true :=
  cmp_ledgerEq_iff.2 h.bank

/-- "T" (no hypothesis) -/
theorem cmp_exact_T {a b : World} (h : WorldEquiv a b) : ledgerEq a.cw20 b.cw20 = true :=
  cmp_ledgerEq_iff.2 h.cw20

/-- "N" (no hypothesis) -/
theorem cmp_exact_N {a b : World} (h : WorldEquiv a b) : nftLedgerEq a.nft b.nft = true :=
  cmp_nftLedgerEq_iff.2 h.nft

/-- "A": contract tables with distinct addresses that are permutations of each other -/
theorem cmp_exact_A {a b : World} (hnd : (akeys a.contracts).Nodup) (h : WorldEquiv a b) :
    canonContracts a.contracts = canonContracts b.contracts := cmp_sortByFst_exact hnd h.contracts

/-- "C" -/
theorem cmp_exact_C {a b : World} (h : WorldEquiv a b) :
    a.nowNs = b.nowNs ∧ a.height = b.height := h.clock

/-- "M": message-code lists that are permutations of each other (no hypothesis) -/
theorem cmp_exact_M {io : ImplOutcome} {mo : Outcome}
    (h : (io.msgs.map implMsgCode).Perm (mo.msgs.map outMsgCode)) :
    sortCodes (io.msgs.map implMsgCode) = sortCodes (mo.msgs.map outMsgCode) :=
  cmp_sortCodes_eq_iff.2 h

/-! ### the abstractions are functions of the equivalence class -/

/-- C08's view of a listing (`eraseFeeL`) respects `ListingEquiv` -/
theorem cmp_eraseFeeL_equiv {a b : Listing} (h : ListingEquiv a b) :
    ListingEquiv (eraseFeeL a) (eraseFeeL b) := by
  obtain ⟨h1, h2, h3, h4, h5, h6, h7, h8, h9, _⟩ := h
  refine ⟨h1, h2, h3, h4, h5, h6, h7, ?_, h9, rfl⟩
  simp only [eraseFeeL, h5]
  split
  · exact GBalEquiv.refl _
  · exact h8

/-- "a08" (C08's view of the listings) -/
theorem cmp_exact_a08 {a b : World} (hnd : (akeys a.mkt.listings).Nodup) (h : WorldEquiv a b) :
    canonListings (a.mkt.listings.map (fun p => (p.1, eraseFeeL p.2))) =
    canonListings (b.mkt.listings.map (fun p => (p.1, eraseFeeL p.2))) := by
  refine cmp_exact_L (by rwa [cmp_akeys_map_snd]) ?_
  exact h.listings.map_map (fun p q hpq => ⟨hpq.1, cmp_eraseFeeL_equiv hpq.2⟩)

/-- the live listing ids of equivalent worlds are permutations of each other -/
theorem cmp_listingIds_perm {a b : World} (h : WorldEquiv a b) :
    (listingIds a.mkt).Perm (listingIds b.mkt) :=
  h.listings.map_perm (fun _ _ hpq => hpq.2.2.1)

/-- the live bucket ids of equivalent worlds are permutations of each other -/
theorem cmp_bucketIds_perm {a b : World} (h : WorldEquiv a b) :
    (bucketIds a.mkt).Perm (bucketIds b.mkt) :=
  h.buckets.map_perm (fun _ _ hpq => congrArg Prod.snd hpq.1)

/-- "a09" (used ids and live ids; no hypothesis) -/
theorem cmp_exact_a09 {a b : World} (h : WorldEquiv a b) :
    sortNats a.mkt.listingUsed = sortNats b.mkt.listingUsed ∧
    sortNats a.mkt.bucketUsed = sortNats b.mkt.bucketUsed ∧
    sortNats (listingIds a.mkt) = sortNats (listingIds b.mkt) ∧
    sortNats (bucketIds a.mkt) = sortNats (bucketIds b.mkt) :=
  ⟨(cmp_exact_U h).1, (cmp_exact_U h).2,
   cmp_sortNats_eq_iff.2 (fun _ => (cmp_listingIds_perm h).mem_iff),
   cmp_sortNats_eq_iff.2 (fun _ => (cmp_bucketIds_perm h).mem_iff)⟩

/-- "a03" (who may claim what; no hypothesis) -/
theorem cmp_exact_a03 {a b : World} (h : WorldEquiv a b) : abs03 a = abs03 b := by
  unfold abs03
  refine cmp_sortCodes_eq_iff.2 (List.Perm.append ?_ ?_)
  · refine h.listings.map_perm ?_
    rintro p q ⟨hk, hc, _, _, _, hs, hcl, _⟩
    simp only [hk, hc, hs, hcl]
  · refine h.buckets.map_perm ?_
    rintro p q ⟨hk, ho, _⟩
    simp only [hk, ho]

/-! #### "a01": the accounting defect -/

/-- a sum over the listings of a quantity that respects `ListingEquiv` -/
theorem cmp_listingsSum_congr {a b : World} (h : WorldEquiv a b) {f : Listing → Nat}
    (hf : ∀ l l', ListingEquiv l l' → f l = f l') : listingsSum f a.mkt = listingsSum f b.mkt :=
  (h.listings.map_perm (fun _ _ hpq => hf _ _ hpq.2)).sum_nat

/-- a sum over the buckets of a quantity that respects `BucketEquiv` -/
theorem cmp_bucketsSum_congr {a b : World} (h : WorldEquiv a b) {f : Bucket → Nat}
    (hf : ∀ l l', BucketEquiv l l' → f l = f l') : bucketsSum f a.mkt = bucketsSum f b.mkt :=
  (h.buckets.map_perm (fun _ _ hpq => hf _ _ hpq.2)).sum_nat

/-- pending community-pool fees of equivalent worlds -/
theorem cmp_pendingFee_congr {a b : World} (h : WorldEquiv a b) (d : Nat) :
    pendingFee a.mkt d = pendingFee b.mkt d := by
  unfold pendingFee
  rw [cmp_listingsSum_congr h (fun l l' hl => by rw [hl.2.2.2.2.2.2.2.2.2]),
    cmp_bucketsSum_congr h (fun l l' hl => by rw [hl.2.2])]

/-- what the records owe in a native denomination -/
theorem cmp_owedNative_congr {a b : World} (h : WorldEquiv a b) (d : Nat) :
    owedNative a.mkt d = owedNative b.mkt d := by
  unfold owedNative
  rw [cmp_pendingFee_congr h,
    cmp_listingsSum_congr h (fun l l' hl => cmp_coinAmt_perm hl.2.2.2.2.2.2.2.1.1 d),
    cmp_bucketsSum_congr h (fun l l' hl => cmp_coinAmt_perm hl.2.1.1 d)]

/-- what the records owe in a CW20 token -/
theorem cmp_owedCw20_congr {a b : World} (h : WorldEquiv a b) (t : Nat) :
    owedCw20 a.mkt t = owedCw20 b.mkt t := by
  unfold owedCw20
  rw [cmp_listingsSum_congr h (fun l l' hl => cmp_coinAmt_perm hl.2.2.2.2.2.2.2.1.2.1 t),
    cmp_bucketsSum_congr h (fun l l' hl => cmp_coinAmt_perm hl.2.1.2.1 t)]

/-- the recorded NFTs of equivalent worlds are permutations of each other -/
theorem cmp_recordedNfts_perm {a b : World} (h : WorldEquiv a b) :
    (recordedNfts a.mkt).Perm (recordedNfts b.mkt) := by
  unfold recordedNfts
  exact (h.listings.flatMap_perm (fun _ _ hpq => hpq.2.2.2.2.2.2.2.2.1.2.2)).append
    (h.buckets.flatMap_perm (fun _ _ hpq => hpq.2.2.1.2.2))

/-- the contract table is read through `alookup`: order-independent for distinct addresses -/
theorem cmp_kindOf_congr {a b : World} (hnd : (akeys a.contracts).Nodup) (h : WorldEquiv a b)
    (c : Nat) : a.kindOf c = b.kindOf c := cmp_alookup_perm hnd h.contracts c

/-- "a01": needs, besides distinct contract addresses and distinct NFT-ledger keys on both sides
    (`heldNfts` reads the ledger as a list), the same marketplace address on both sides (`self` is
    not part of `WorldEquiv`) -/
theorem cmp_exact_a01 {a b : World} (hc : (akeys a.contracts).Nodup) (hna : (akeys a.nft).Nodup)
    (hnb : (akeys b.nft).Nodup) (hself : a.self = b.self) (h : WorldEquiv a b) :
    abs01Eq a b = true := by
  unfold abs01Eq
  simp only [beq_iff_eq]
  generalize dedupNats (nativeUniverse a ++ nativeUniverse b) = ds
  generalize dedupNats (cw20Universe a ++ cw20Universe b) = ts
  have hrec : ((recordedNfts a.mkt).filter (fun n => a.isHonest721 n.coll)).Perm
      ((recordedNfts b.mkt).filter (fun n => b.isHonest721 n.coll)) := by
    have : (fun n : Nft => a.isHonest721 n.coll) = (fun n : Nft => b.isHonest721 n.coll) := by
      funext n
      simp only [World.isHonest721, cmp_kindOf_congr hc h]
    rw [this]
    exact (cmp_recordedNfts_perm h).filter _
  have hheld := cmp_heldNfts_perm hna hnb hself h.nft
  unfold defect01
  simp only [Prod.mk.injEq]
  refine ⟨?_, ?_, ?_, ?_⟩
  · simp only [hself, h.bank, cmp_owedNative_congr h]
  · simp only [hself, h.cw20, cmp_owedCw20_congr h]
  · rw [cmp_nftCodes_perm (cmp_filter_notContains_perm hrec hheld),
      cmp_nftCodes_perm (cmp_filter_count_perm hrec)]
  · rw [cmp_nftCodes_perm (cmp_filter_notContains_perm hheld hrec)]

/-! ### the full comparison -/

/-- distinct keys in the keyed lists of a world (the sorts of `canonListings`, `canonBuckets`,
    `canonReg`, `canonContracts` only look at the key; `heldNfts` reads the NFT ledger as a list).
    Holds in every state the model reaches (`cmp_keysOk_stepF`, `cmp_keysOk_run`). -/
structure CmpKeysOk (w : World) : Prop where
  listings : (akeys w.mkt.listings).Nodup
  buckets : (akeys w.mkt.buckets).Nodup
  reg : (akeys w.reg).Nodup
  contracts : (akeys w.contracts).Nodup
  nft : (akeys w.nft).Nodup

instance (w : World) : Decidable (CmpKeysOk w) :=
  decidable_of_iff ((akeys w.mkt.listings).Nodup ∧ (akeys w.mkt.buckets).Nodup ∧ (akeys w.reg).Nodup ∧
      (akeys w.contracts).Nodup ∧ (akeys w.nft).Nodup)
    ⟨fun h => ⟨h.1, h.2.1, h.2.2.1, h.2.2.2.1, h.2.2.2.2⟩,
     fun h => ⟨h.listings, h.buckets, h.reg, h.contracts, h.nft⟩⟩

/-- distinct keys carry over from the model's world to an equivalent world (all but the NFT
    ledger, of which `WorldEquiv` only knows the map `alookup`, not the list) -/
theorem cmp_keysOk_transfer {a b : World} (h : WorldEquiv a b) (hk : CmpKeysOk b) :
    (akeys a.mkt.listings).Nodup ∧ (akeys a.mkt.buckets).Nodup ∧ (akeys a.reg).Nodup ∧
    (akeys a.contracts).Nodup :=
  ⟨h.listings.akeys_perm.symm.nodup hk.listings, h.buckets.akeys_perm.symm.nodup hk.buckets,
   (h.reg.map Prod.fst).symm.nodup hk.reg, (h.contracts.map Prod.fst).symm.nodup hk.contracts⟩

/-- Exactness of everything but the accounting abstraction: for equivalent worlds (the model's
    with distinct keys) and the same multiset of message codes, the only name `compDiffs` can
    report is "a01" -/
theorem compDiffs_exact_upto_a01 {iw mw : World} {io : ImplOutcome} {mo : Outcome}
    (h : WorldEquiv iw mw) (hm : (io.msgs.map implMsgCode).Perm (mo.msgs.map outMsgCode))
    (hk : CmpKeysOk mw) :
    compDiffs iw mw io mo = if abs01Eq iw mw then [] else ["a01"] := by
  obtain ⟨kl, kb, kr, kc⟩ := cmp_keysOk_transfer h hk
  have hL := cmp_exact_L kl h.listings
  have hB := cmp_exact_B kb h.buckets
  have hU := cmp_exact_U h
  have hR := cmp_exact_R kr h
  have hA := cmp_exact_A kc h
  have hM := cmp_exact_M hm
  have h08 := cmp_exact_a08 kl h
  have h09 := cmp_exact_a09 h
  have h03 := cmp_exact_a03 h
  unfold compDiffs
  simp only [hL, hB, hU.1, hU.2, h.fee.1, h.fee.2, h.registryItem, hR, cmp_exact_K h, cmp_exact_T h,
    cmp_exact_N h, hA, h.clock.1, h.clock.2, hM, h08, h09.2.2.1, h09.2.2.2, h03, beq_self_eq_true,
    Bool.and_self]
  cases abs01Eq iw mw <;> rfl

/-- **Exactness of the state comparison.**  Worlds that are the same up to the order of list
    entries, with the same multiset of emitted message codes, are never reported as different —
    provided the model's world has distinct keys (`CmpKeysOk`: true in every reachable model state),
    the implementation's NFT ledger has distinct keys (it is the dump of a map), and both worlds
    carry the same marketplace address (only "a01" needs the last two). -/
theorem compDiffs_exact {iw mw : World} {io : ImplOutcome} {mo : Outcome}
    (h : WorldEquiv iw mw) (hm : (io.msgs.map implMsgCode).Perm (mo.msgs.map outMsgCode))
    (hk : CmpKeysOk mw) (hn : (akeys iw.nft).Nodup) (hself : iw.self = mw.self) :
    compDiffs iw mw io mo = [] := by
  rw [compDiffs_exact_upto_a01 h hm hk,
    cmp_exact_a01 (cmp_keysOk_transfer h hk).2.2.2 hn hk.nft hself h]
  rfl

/-- completeness and exactness together: under the side conditions of `compDiffs_exact`, the
    comparison reports nothing iff the worlds are equivalent and the message codes agree as
    multisets -/
theorem compDiffs_nil_iff {iw mw : World} {io : ImplOutcome} {mo : Outcome}
    (hk : CmpKeysOk mw) (hn : (akeys iw.nft).Nodup) (hself : iw.self = mw.self) :
    compDiffs iw mw io mo = [] ↔
      WorldEquiv iw mw ∧ (io.msgs.map implMsgCode).Perm (mo.msgs.map outMsgCode) :=
  ⟨fun h => ⟨(compDiffs_complete h).1, compDiffs_complete_msgs h⟩,
   fun h => compDiffs_exact h.1 h.2 hk hn hself⟩

/-- non-vacuity of `compDiffs_exact`, `compDiffs_exact_upto_a01`, `compDiffs_nil_iff` and of the
    per-component lemmas `cmp_exact_*`: the example pair meets every hypothesis -/
example : WorldEquiv wA wB ∧ (io.msgs.map implMsgCode).Perm (mo.msgs.map outMsgCode) ∧ CmpKeysOk wB ∧
    CmpKeysOk wA ∧ wA.self = wB.self :=
  ⟨CmpEx.equiv, CmpEx.msgs, by decide, by decide, rfl⟩
example : compDiffs wA wB io mo = [] :=
  compDiffs_exact CmpEx.equiv CmpEx.msgs (by decide) (by decide) rfl

/-- the hypothesis "distinct keys" cannot be dropped: the sort is stable, so two entries with the
    same key stay in input order and the check is order-sensitive (a false alarm, not a miss) -/
theorem cmp_counter_dupKeys :
    ([(20, ⟨1, 100, 3⟩), (20, ⟨2, 50, 4⟩)] : Registry).Perm [(20, ⟨2, 50, 4⟩), (20, ⟨1, 100, 3⟩)] ∧
    canonReg [(20, ⟨1, 100, 3⟩), (20, ⟨2, 50, 4⟩)] ≠ canonReg [(20, ⟨2, 50, 4⟩), (20, ⟨1, 100, 3⟩)] := by
  refine ⟨by decide, ?_⟩
  unfold canonReg
  rw [List.mergeSort_of_pairwise (by decide), List.mergeSort_of_pairwise (by decide)]
  decide

/-- No condition on the marketplace address is left.  With the former `lget` reading of "N",
    `wZ1` / `wZ2` (marketplace at address 0; `wZ1` has an extra token owned by address 0) were
    equivalent worlds on which "a01" fired, so exactness needed `self ≠ 0`.  Now the pair is not
    equivalent (and "N" says so) … -/
example : compDiffs wZ1 wZ2 io mo = ["N", "a01"] ∧ alookup (20, 5) wZ1.nft ≠ alookup (20, 5) wZ2.nft ∧
    (∀ k, lget wZ1.nft k = lget wZ2.nft k) := by
  refine ⟨by cmp_eval, by decide, fun k => ?_⟩
  show lget (((20, 5), 0) :: wA.nft) k = lget wA.nft k
  by_cases hk : ((20, 5) : Nat × Nat) = k
  · subst hk; decide
  · simp only [lget, alookup_cons_ne hk]

/-- … and `compDiffs_exact` applies to a marketplace at address 0: `wZ2` against the reordered
    `wZ3` -/
theorem CmpEx.equivZ : WorldEquiv wZ2 wZ3 :=
  ⟨CmpEx.equiv.listings, CmpEx.equiv.buckets, CmpEx.equiv.usedL, CmpEx.equiv.usedB, CmpEx.equiv.fee,
   CmpEx.equiv.registryItem, CmpEx.equiv.reg, CmpEx.equiv.bank, CmpEx.equiv.cw20, CmpEx.equiv.nft,
   CmpEx.equiv.contracts, CmpEx.equiv.clock⟩
example : wZ2.self = 0 ∧ compDiffs wZ2 wZ3 io mo = [] :=
  ⟨rfl, compDiffs_exact CmpEx.equivZ CmpEx.msgs (by decide) (by decide) rfl⟩

/-! ### the side conditions hold along the model's steps -/

/-- no operation (with or without an injected dispatch fault) changes the five fields that
    `compDiffs` does not compare -/
theorem cmp_stepF_static (fail : Nat → Bool) (w : World) (op : Op) :
    (stepF fail w op).1.self = w.self ∧ (stepF fail w op).1.pool = w.pool ∧
    (stepF fail w op).1.regAddr = w.regAddr ∧ (stepF fail w op).1.junoD = w.junoD ∧
    (stepF fail w op).1.usdcD = w.usdcD := by
  cases ho : op.asExec with
  | some t =>
    obtain ⟨c, f, msg⟩ := t
    rcases stepF_market (fail := fail) (w := w) ho with ⟨e, h⟩ | ⟨m', msgs, w2, _, _, hc, h⟩
    · rw [h]; exact ⟨rfl, rfl, rfl, rfl, rfl⟩
    · rw [h]; exact ⟨hc.self, hc.pool, hc.regAddr, hc.junoD, hc.usdcD⟩
  | none =>
    cases op with
    | exec s fu m => simp [Op.asExec] at ho
    | send20 t s a i => simp [Op.asExec] at ho
    | send721 co s t i => simp [Op.asExec] at ho
    | royalty s m =>
      rcases stepF_royalty fail w s m with ⟨e, _, h⟩ | ⟨r, _, h⟩ <;> rw [h] <;>
        exact ⟨rfl, rfl, rfl, rfl, rfl⟩
    | setAdmin s c n =>
      simp only [stepF]
      repeat' split
      all_goals exact ⟨rfl, rfl, rfl, rfl, rfl⟩
    | advance a b => exact ⟨rfl, rfl, rfl, rfl, rfl⟩

/-- … along any history -/
theorem cmp_run_static (w : World) (ops : List Op) :
    (run w ops).self = w.self ∧ (run w ops).pool = w.pool ∧ (run w ops).regAddr = w.regAddr ∧
    (run w ops).junoD = w.junoD ∧ (run w ops).usdcD = w.usdcD := by
  induction ops generalizing w with
  | nil => exact ⟨rfl, rfl, rfl, rfl, rfl⟩
  | cons op ops ih =>
    have h1 := ih (step w op).1
    have h2 := cmp_stepF_static noFault w op
    simp only [run]
    exact ⟨h1.1.trans h2.1, h1.2.1.trans h2.2.1, h1.2.2.1.trans h2.2.2.1,
      h1.2.2.2.1.trans h2.2.2.2.1, h1.2.2.2.2.trans h2.2.2.2.2⟩

/-- the contract table keeps distinct addresses -/
theorem cmp_stepF_contracts_nodup (fail : Nat → Bool) {w : World} (op : Op)
    (hc : (akeys w.contracts).Nodup) : (akeys (stepF fail w op).1.contracts).Nodup := by
  cases ho : op.asExec with
  | some t =>
    obtain ⟨c, f, msg⟩ := t
    rcases stepF_market (fail := fail) (w := w) ho with ⟨e, h⟩ | ⟨m', msgs, w2, _, _, hce, h⟩
    · rw [h]; exact hc
    · rw [h, hce.contracts]; exact hc
  | none =>
    cases op with
    | exec s fu m => simp [Op.asExec] at ho
    | send20 t s a i => simp [Op.asExec] at ho
    | send721 co s t i => simp [Op.asExec] at ho
    | royalty s m =>
      rcases stepF_royalty fail w s m with ⟨e, _, h⟩ | ⟨r, _, h⟩ <;> rw [h] <;> exact hc
    | setAdmin s c n =>
      simp only [stepF]
      repeat' split
      all_goals first | exact hc | exact nodup_akeys_ainsert _ _ hc
    | advance a b => exact hc

/-- one model step (with or without an injected fault) from a world that satisfies the id
    invariant (= oracle `o09`) and has distinct keys in registry, contract table and ledgers leads
    to a world with `CmpKeysOk`: the hypothesis of `compDiffs_exact` on the model side -/
theorem cmp_keysOk_stepF (fail : Nat → Bool) {w : World} (op : Op) (hi : IdsInv w.mkt)
    (hr : (akeys w.reg).Nodup) (hc : (akeys w.contracts).Nodup) (hl : LedgersNodup w) :
    CmpKeysOk (stepF fail w op).1 := by
  have hi' : IdsInv (stepF fail w op).1.mkt := by
    rcases stepF_mkt_cases fail w op with h | ⟨c, f, msg, m', msgs, _, hx, hm, _⟩
    · rw [h]; exact hi
    · rw [hm]; exact C09_inv_execute hi hx
  have hr' : (akeys (stepF fail w op).1.reg).Nodup := by
    by_cases hro : ∃ s m, op = .royalty s m
    · obtain ⟨s, m, rfl⟩ := hro
      rcases stepF_royalty fail w s m with ⟨e, _, h⟩ | ⟨r, hx, h⟩
      · rw [h]; exact hr
      · rw [h]; exact C14_nodup_inv hr hx
    · rw [stepF_reg fail (fun s m h => hro ⟨s, m, h⟩)]; exact hr
  exact ⟨hi'.lkeys, hi'.bkeys, hr', cmp_stepF_contracts_nodup fail op hc,
    (stepF_ledgersNodup hl).nft⟩

/-- … and so does every history from instantiation -/
theorem cmp_keysOk_run {w : World} {t : Nat} {r : Option Nat} (h0 : w.mkt = instantiate t r)
    (hr : (akeys w.reg).Nodup) (hc : (akeys w.contracts).Nodup) (hl : LedgersNodup w)
    (ops : List Op) : CmpKeysOk (run w ops) := by
  have hi := C09_reach h0 ops
  refine ⟨hi.lkeys, hi.bkeys, C14_reach_nodup hr ops, ?_, (run_ledgersNodup hl ops).nft⟩
  clear hi h0 hr hl
  induction ops generalizing w with
  | nil => exact hc
  | cons op ops ih => exact ih (cmp_stepF_contracts_nodup noFault op hc)

/-- non-vacuity of `cmp_keysOk_stepF` / `cmp_keysOk_run`: a world with a freshly instantiated
    marketplace; four accepted operations that write the marketplace record, the bank, the clock,
    the registry and the contract table -/
example : w0.mkt = instantiate 0 (some 7) ∧ IdsInv w0.mkt ∧ (akeys w0.reg).Nodup ∧
    (akeys w0.contracts).Nodup ∧ LedgersNodup w0 :=
  ⟨rfl, IdsInv.init 0 (some 7), by decide, by decide, ⟨by decide, by decide, by decide⟩⟩
example : (List.range 4).map (fun i => (ops.drop i).head?.map
    (fun op => (step (run w0 (ops.take i)) op).2.ok)) = [some true, some true, some true, some true] := by
  decide
example : CmpKeysOk (run w0 ops) :=
  cmp_keysOk_run rfl (by decide) (by decide) ⟨by decide, by decide, by decide⟩ ops
example : (run w0 ops).mkt.buckets.length = 1 ∧ (run w0 ops).reg ≠ w0.reg ∧
    (run w0 ops).contracts ≠ w0.contracts := by decide
example : (run w0 ops).self = 9 ∧ (run w0 ops).usdcD = 1 :=
  ⟨(cmp_run_static w0 ops).1, (cmp_run_static w0 ops).2.2.2.2⟩

/-! ## the state oracles do not see the order either -/

/-- `checkIds` (oracle `o09`) is a function of the equivalence class -/
theorem cmp_checkIds_congr {a b : World} (h : WorldEquiv a b) : checkIds a.mkt = checkIds b.mkt := by
  have h1 : decide (akeys a.mkt.listings).Nodup = decide (akeys b.mkt.listings).Nodup :=
    decide_eq_decide.2 h.listings.akeys_perm.nodup_iff
  have h2 : decide (akeys a.mkt.buckets).Nodup = decide (akeys b.mkt.buckets).Nodup :=
    decide_eq_decide.2 h.buckets.akeys_perm.nodup_iff
  have h3 : decide (listingIds a.mkt).Nodup = decide (listingIds b.mkt).Nodup :=
    decide_eq_decide.2 (cmp_listingIds_perm h).nodup_iff
  have h4 : decide (bucketIds a.mkt).Nodup = decide (bucketIds b.mkt).Nodup :=
    decide_eq_decide.2 (cmp_bucketIds_perm h).nodup_iff
  have h5 : (listingIds a.mkt).all (fun i => decide (i ∈ a.mkt.listingUsed)) =
      (listingIds b.mkt).all (fun i => decide (i ∈ b.mkt.listingUsed)) := by
    rw [cmp_all_perm (cmp_listingIds_perm h)]
    exact congrArg _ (funext fun i => decide_eq_decide.2 (h.usedL i))
  have h6 : (bucketIds a.mkt).all (fun i => decide (i ∈ a.mkt.bucketUsed)) =
      (bucketIds b.mkt).all (fun i => decide (i ∈ b.mkt.bucketUsed)) := by
    rw [cmp_all_perm (cmp_bucketIds_perm h)]
    exact congrArg _ (funext fun i => decide_eq_decide.2 (h.usedB i))
  unfold checkIds
  rw [h1, h2, h3, h4, h5, h6, decide_eq_decide.2 (h.usedL 0), decide_eq_decide.2 (h.usedB 0)]

/-- `allNonzero` does not depend on the order -/
theorem cmp_allNonzero_perm {a b : List Coin} (h : a.Perm b) : allNonzero a = allNonzero b :=
  cmp_all_perm h

/-- the number of assets of equivalent balances -/
theorem cmp_count_congr {a b : GBal} (h : GBalEquiv a b) : a.count = b.count := by
  unfold GBal.count
  rw [h.1.length_eq, h.2.1.length_eq, h.2.2.length_eq]

/-- `wfBal` respects `GBalEquiv` -/
theorem cmp_wfBal_congr {a b : GBal} (h : GBalEquiv a b) : wfBal a = wfBal b := by
  unfold wfBal
  rw [cmp_allNonzero_perm h.1, cmp_allNonzero_perm h.2.1, cmp_count_congr h,
    decide_eq_decide.2 (cmp_keys_perm h.1).nodup_iff, decide_eq_decide.2 (cmp_keys_perm h.2.1).nodup_iff,
    decide_eq_decide.2 h.2.2.nodup_iff]

/-- `wfAsk` (= `checkValid`) respects `GBalEquiv` -/
theorem cmp_wfAsk_congr {a b : GBal} (h : GBalEquiv a b) : wfAsk a = wfAsk b := by
  unfold wfAsk checkValid
  rw [cmp_allNonzero_perm h.1, cmp_allNonzero_perm h.2.1, cmp_count_congr h,
    decide_eq_decide.2 (cmp_keys_perm h.1).nodup_iff, decide_eq_decide.2 (cmp_keys_perm h.2.1).nodup_iff,
    decide_eq_decide.2 h.2.2.nodup_iff]

/-- `wfListing` respects `ListingEquiv` -/
theorem cmp_wfListing_congr (j u : Nat) (k : Nat × Nat) {a b : Listing} (h : ListingEquiv a b) :
    wfListing j u k a = wfListing j u k b := by
  obtain ⟨h1, h2, h3, h4, h5, h6, h7, h8, h9, h10⟩ := h
  unfold wfListing
  rw [h1, h2, h3, h4, h5, h6, h10, cmp_wfBal_congr h8, cmp_wfAsk_congr h9]

/-- `wfBucket` respects `BucketEquiv` -/
theorem cmp_wfBucket_congr (j u : Nat) (k : Nat × Nat) {a b : Bucket} (h : BucketEquiv a b) :
    wfBucket j u k a = wfBucket j u k b := by
  obtain ⟨h1, h2, h3⟩ := h
  unfold wfBucket
  rw [h1, h3, cmp_wfBal_congr h2]

/-- `checkWF` (oracle `o12`) is a function of the equivalence class and the two fee
    denominations (static fields, not part of `WorldEquiv`) -/
theorem cmp_checkWF_congr {a b : World} (h : WorldEquiv a b) (hj : a.junoD = b.junoD)
    (hu : a.usdcD = b.usdcD) : checkWF a = checkWF b := by
  unfold checkWF
  rw [hj, hu,
    h.listings.all_eq (f := fun p => wfListing b.junoD b.usdcD p.1 p.2)
      (g := fun p => wfListing b.junoD b.usdcD p.1 p.2)
      (fun p q hpq => by rw [hpq.1]; exact cmp_wfListing_congr _ _ _ hpq.2),
    h.buckets.all_eq (f := fun p => wfBucket b.junoD b.usdcD p.1 p.2)
      (g := fun p => wfBucket b.junoD b.usdcD p.1 p.2)
      (fun p q hpq => by rw [hpq.1]; exact cmp_wfBucket_congr _ _ _ hpq.2)]

/-- `checkC01` (oracle `o01`, the accounting invariant) is a function of the equivalence class —
    under the side conditions of "a01": distinct contract addresses, distinct NFT-ledger keys on
    both sides, the same marketplace address.  (The universes over which `checkC01`
    quantifies may differ — a zero entry in a ledger adds a denomination — but outside of them
    both sides of `held = owed` are 0: `cmp_c01_native_iff`, `cmp_c01_cw20_iff`.) -/
theorem cmp_checkC01_congr {a b : World} (hc : (akeys a.contracts).Nodup)
    (hna : (akeys a.nft).Nodup) (hnb : (akeys b.nft).Nodup) (hself : a.self = b.self)
    (h : WorldEquiv a b) : checkC01 a = checkC01 b := by
  have hrec : ((recordedNfts a.mkt).filter (fun n => a.isHonest721 n.coll)).Perm
      ((recordedNfts b.mkt).filter (fun n => b.isHonest721 n.coll)) := by
    have : (fun n : Nft => a.isHonest721 n.coll) = (fun n : Nft => b.isHonest721 n.coll) := by
      funext n
      simp only [World.isHonest721, cmp_kindOf_congr hc h]
    rw [this]
    exact (cmp_recordedNfts_perm h).filter _
  have hheld := cmp_heldNfts_perm hna hnb hself h.nft
  have h1 : (nativeUniverse a).all (fun d => decide (lget a.bank (a.self, d) = owedNative a.mkt d)) =
      (nativeUniverse b).all (fun d => decide (lget b.bank (b.self, d) = owedNative b.mkt d)) := by
    rw [Bool.eq_iff_iff, cmp_c01_native_iff, cmp_c01_native_iff]
    simp only [hself, h.bank, cmp_owedNative_congr h]
  have h2 : (cw20Universe a).all (fun t => decide (lget a.cw20 (t, a.self) = owedCw20 a.mkt t)) =
      (cw20Universe b).all (fun t => decide (lget b.cw20 (t, b.self) = owedCw20 b.mkt t)) := by
    rw [Bool.eq_iff_iff, cmp_c01_cw20_iff, cmp_c01_cw20_iff]
    simp only [hself, h.cw20, cmp_owedCw20_congr h, World.isHonest20, cmp_kindOf_congr hc h]
  unfold checkC01
  simp only [h1, h2, cmp_c01_nft_perm hrec hheld]

/-- non-vacuity of the congruence lemmas: the example pair is equivalent, has the same fee
    denominations, distinct keys and the same marketplace address; the three oracles accept the
    example world (so the equal values are `true`, not a trivial `false`) -/
example : WorldEquiv wA wB ∧ wA.junoD = wB.junoD ∧ wA.usdcD = wB.usdcD ∧ CmpKeysOk wA ∧ CmpKeysOk wB ∧
    wA.self = wB.self :=
  ⟨CmpEx.equiv, rfl, rfl, by decide, by decide, rfl⟩
example : checkIds wA.mkt = true ∧ checkWF wA = true ∧ checkC01 wA = true := by decide
example : checkIds wB.mkt = true := (cmp_checkIds_congr CmpEx.equiv).symm.trans (by decide)
example : checkWF wB = true := (cmp_checkWF_congr CmpEx.equiv rfl rfl).symm.trans (by decide)
example : checkC01 wB = true :=
  (cmp_checkC01_congr (a := wA) (b := wB) (by decide) (by decide) (by decide) rfl
    CmpEx.equiv).symm.trans
    (by decide)


/-! ## axioms -/
#print axioms cmp_canonGBal_iff
#print axioms cmp_canonListing_iff
#print axioms cmp_canonBucket_iff
#print axioms GBalEquiv.refl
#print axioms ListingEquiv.refl
#print axioms BucketEquiv.refl
#print axioms cmp_upToOrder_refl
#print axioms WorldEquiv.refl
#print axioms GBalEquiv.symm
#print axioms GBalEquiv.trans
#print axioms ListingEquiv.symm
#print axioms ListingEquiv.trans
#print axioms BucketEquiv.symm
#print axioms BucketEquiv.trans
#print axioms WorldEquiv.symm
#print axioms WorldEquiv.trans
#print axioms cmp_complete_L
#print axioms cmp_complete_B
#print axioms compDiffs_complete
#print axioms compDiffs_complete_msgs
#print axioms cmp_outMsgCode_eq_iff
#print axioms cmp_implMsgCode_eq_iff
#print axioms compDiffs_complete_matched
#print axioms cmp_codes_perm_of_matched
#print axioms CmpEx.nil
#print axioms CmpEx.equiv
#print axioms CmpEx.msgs
#print axioms cmp_nft_owner0_detected
#print axioms cmp_exact_L
#print axioms cmp_exact_B
#print axioms cmp_exact_U
#print axioms cmp_exact_F
#print axioms cmp_exact_G
#print axioms cmp_exact_R
#print axioms cmp_exact_K
#print axioms cmp_exact_T
#print axioms cmp_exact_N
#print axioms cmp_exact_A
#print axioms cmp_exact_C
#print axioms cmp_exact_M
#print axioms cmp_eraseFeeL_equiv
#print axioms cmp_exact_a08
#print axioms cmp_listingIds_perm
#print axioms cmp_bucketIds_perm
#print axioms cmp_exact_a09
#print axioms cmp_exact_a03
#print axioms cmp_listingsSum_congr
#print axioms cmp_bucketsSum_congr
#print axioms cmp_pendingFee_congr
#print axioms cmp_owedNative_congr
#print axioms cmp_owedCw20_congr
#print axioms cmp_recordedNfts_perm
#print axioms cmp_kindOf_congr
#print axioms cmp_exact_a01
#print axioms cmp_keysOk_transfer
#print axioms compDiffs_exact_upto_a01
#print axioms compDiffs_exact
#print axioms compDiffs_nil_iff
#print axioms cmp_counter_dupKeys
#print axioms CmpEx.equivZ
#print axioms cmp_stepF_static
#print axioms cmp_run_static
#print axioms cmp_stepF_contracts_nodup
#print axioms cmp_keysOk_stepF
#print axioms cmp_keysOk_run
#print axioms cmp_checkIds_congr
#print axioms cmp_allNonzero_perm
#print axioms cmp_count_congr
#print axioms cmp_wfBal_congr
#print axioms cmp_wfAsk_congr
#print axioms cmp_wfListing_congr
#print axioms cmp_wfBucket_congr
#print axioms cmp_checkWF_congr
#print axioms cmp_checkC01_congr

end Fuzion
