/-
  Fuzion.Props.C03Reach — C03 ("A purchase swaps entitlements atomically; a listing sells at most
  once") for every state reached from a freshly instantiated marketplace.

  Property text (C03): A successful purchase simultaneously makes the buyer the only party able
  to claim the listing's goods and the seller the only party able to claim the bucket's goods;
  neither half happens without the other.  Each is claimable exactly once, and under every
  ordering of competing purchases, deletions and withdrawals a listing is sold at most once and
  losing buyers keep their buckets intact.

  Props/C03.lean proves the theorems for any market record satisfying the id invariant `IdsInv`
  (and, for `C03_claim_once_listing`, the record invariant `WFInv`).  Here these hypotheses are
  discharged from reachability: `w0.mkt = instantiate t r` and the state is `run w0 ops` for an
  arbitrary operation list `ops` — marketplace messages of any account, forged hook calls, CW20 /
  CW721 sends, registry messages, admin changes, the passage of time (`C09_reach`, `C12_reach`
  through `closed_ids`, `closed_wf0`).  What remains are hypotheses about the *input*: which
  purchase / withdrawal was accepted, which record is looked at.  Nothing about the initial world
  other than its marketplace record is assumed.

  `C03_claim_only_buyer_reach` additionally discharges "the closed listing has claimant `c`" (a
  closed record of a reached state carries its holder as claimant, C12).  `C03_sold_once_reach`
  (the counting form of "sold at most once") is in Props/C03Closed.lean; `C03_no_rebuy`,
  `C03_sold_stays`, `C03_sold_stays_run`, `C03_sold_refuses` have no invariant hypothesis and are
  not restated.
-/
import Fuzion.Props.C03
import Fuzion.Lemmas.ReachLemmas
namespace Fuzion

/-! ### sample reachable states for the non-vacuity examples

From the sample deployment `AcctEx.w0` (Lemmas/AcctLemmas.lean): the first six operations of the
sample history (seller 1 creates listing 3, tops it up, finalizes it for 600 s asking 2000 of
denom 2; buyer 2 fills bucket 8 with the price; the registry entry of collection 60 is updated),
then the bystander 5 opens bucket 9 with 30 of denom 1 — a competitor whose bucket does not match.
`wSold` is the state after buyer 2's purchase, `wClaimed` after buyer 2 has withdrawn the goods. -/

namespace C03REx
def ops : List Op := AcctEx.ops.take 6 ++ [.exec 5 [⟨1, 30⟩] (.createBucket 9)]
def w : World := run AcctEx.w0 ops
def opsSold : List Op := ops ++ [.exec 2 [] (.buy 3 8)]
def wSold : World := run AcctEx.w0 opsSold
end C03REx

example : AcctEx.w0.mkt = instantiate 0 (some 102) := rfl
example : C03REx.w.mkt.listings.map (fun p => (p.1, p.2.creator, p.2.status)) =
      [((1, 3), 1, .finalized)] ∧
    C03REx.w.mkt.buckets.map (fun p => (p.1, p.2.owner)) = [((5, 9), 5), ((2, 8), 2)] ∧
    C03REx.wSold.mkt.listings.map (fun p => (p.1, p.2.claimant, p.2.status)) =
      [((2, 3), some 2, .closed)] ∧
    C03REx.wSold.mkt.buckets.map (fun p => (p.1, p.2.owner)) = [((1, 8), 1), ((5, 9), 5)] := by
  decide

section
variable {w0 : World} {t : Nat} {r : Option Nat}

/-! ### 1. the swap -/

/-- "A successful purchase simultaneously makes the buyer [the owner of] the listing's goods and
    the seller [the owner of] the bucket's goods; neither half happens without the other", in
    every reachable state: the single state update of an accepted `buy` re-files the listing
    (closed, claimant = buyer) under the buyer's key *and* the bucket under the seller's key,
    removes both old entries, leaves every other key of both tables alone, and overwrites
    nothing.  (`IdsInv` discharged by `C09_reach`.) -/
theorem C03_swap_reach (h0 : w0.mkt = instantiate t r) (ops : List Op) {m' : Market} {env : Env}
    {buyer lid bid : Nat} {out : List OutMsg}
    (h : buy (run w0 ops).mkt env buyer lid bid = .ok (m', out)) :
    ∃ l b l' b',
      -- the old records
      alookup (l.creator, lid) (run w0 ops).mkt.listings = some l ∧
      alookup (buyer, bid) (run w0 ops).mkt.buckets = some b ∧
      -- the new ones
      alookup (buyer, lid) m'.listings = some l' ∧ l'.creator = buyer ∧ l'.claimant = some buyer ∧
      l'.status = .closed ∧ l'.id = lid ∧
      alookup (l.creator, bid) m'.buckets = some b' ∧ b'.owner = l.creator ∧
      -- the old entries are gone
      (buyer ≠ l.creator →
        alookup (l.creator, lid) m'.listings = none ∧ alookup (buyer, bid) m'.buckets = none) ∧
      -- every other key is untouched
      (∀ k, k ≠ (buyer, lid) → k ≠ (l.creator, lid) →
        alookup k m'.listings = alookup k (run w0 ops).mkt.listings) ∧
      (∀ k, k ≠ (buyer, bid) → k ≠ (l.creator, bid) →
        alookup k m'.buckets = alookup k (run w0 ops).mkt.buckets) ∧
      -- nothing was stored under the two new keys before
      (buyer ≠ l.creator →
        alookup (buyer, lid) (run w0 ops).mkt.listings = none ∧
        alookup (l.creator, bid) (run w0 ops).mkt.buckets = none) :=
  C03_swap (closed_ids h0 ops) h

/-- non-vacuity of `C03_swap_reach`: buyer 2's purchase of listing 3 with bucket 8 is accepted in
    the sample state (`errOf … = none`: the handler returned `.ok`) … -/
example : C12Ex.errOf (buy C03REx.w.mkt C03REx.w.env 2 3 8) = none := by decide
/-- … and the theorem applies to it -/
example {m' : Market} {out : List OutMsg} (h : buy C03REx.w.mkt C03REx.w.env 2 3 8 = .ok (m', out)) :=
  C03_swap_reach (w0 := AcctEx.w0) rfl C03REx.ops h

/-- "makes the buyer the **only** party able to claim the listing's goods and the seller the
    **only** party able to claim the bucket's goods", in the state after a purchase accepted in
    any reachable state: whatever the time and whoever asks, `WithdrawPurchased lid` is accepted
    exactly for the buyer and `RemoveBucket bid` exactly for the seller. -/
theorem C03_swap_claims_reach (h0 : w0.mkt = instantiate t r) (ops : List Op) {m' : Market}
    {env : Env} {buyer lid bid : Nat} {out : List OutMsg}
    (h : buy (run w0 ops).mkt env buyer lid bid = .ok (m', out)) :
    ∃ seller l, alookup (seller, lid) (run w0 ops).mkt.listings = some l ∧ l.creator = seller ∧
      ∀ (env' : Env) (who : Nat),
        ((∃ r, withdrawPurchased m' env' who lid = .ok r) ↔ who = buyer) ∧
        ((∃ r, withdrawBucket m' env' who bid = .ok r) ↔ who = seller) :=
  C03_swap_claims (closed_ids h0 ops) h

/-- non-vacuity of `C03_swap_claims_reach` (the same accepted purchase) … -/
example {m' : Market} {out : List OutMsg} (h : buy C03REx.w.mkt C03REx.w.env 2 3 8 = .ok (m', out)) :=
  C03_swap_claims_reach (w0 := AcctEx.w0) rfl C03REx.ops h
/-- … and what it says there, computed on the reached state after the purchase: the buyer's claim
    is accepted, the seller's and the bystander's are refused; the seller can take bucket 8, the
    buyer no longer can -/
example :
    C12Ex.errOf (withdrawPurchased C03REx.wSold.mkt C03REx.wSold.env 2 3) = none ∧
    C12Ex.errOf (withdrawPurchased C03REx.wSold.mkt C03REx.wSold.env 1 3) = some .notClaimant ∧
    C12Ex.errOf (withdrawPurchased C03REx.wSold.mkt C03REx.wSold.env 5 3) = some .notClaimant ∧
    C12Ex.errOf (withdrawBucket C03REx.wSold.mkt C03REx.wSold.env 1 8) = none ∧
    C12Ex.errOf (withdrawBucket C03REx.wSold.mkt C03REx.wSold.env 2 8) = some .notFound := by decide

/-! ### 2. who can claim, in any reachable state -/

/-- "the buyer the only party able to claim the listing's goods", in every reachable state: a
    closed listing has a claimant, the claimant is the account the record is filed under, and
    `WithdrawPurchased` is accepted for that account and refused for everybody else, at any
    time.  (Both the claimant hypothesis `hc` of `C03_claim_only_buyer` and the filing are
    discharged by `C12_reach`.) -/
theorem C03_claim_only_buyer_reach (h0 : w0.mkt = instantiate t r) (ops : List Op) {lid : Nat}
    {k : Nat × Nat} {l : Listing} (hl : findById lid (run w0 ops).mkt.listings = some (k, l))
    (hs : l.status = .closed) :
    l.claimant = some l.creator ∧ k = (l.creator, lid) ∧
    ∀ (env : Env) (who : Nat),
      (∃ r, withdrawPurchased (run w0 ops).mkt env who lid = .ok r) ↔ who = l.creator := by
  obtain ⟨hm, _, hk, _, _⟩ := reach_find h0 ops hl
  have hc := (reach_claimant_iff h0 ops hm).2 hs
  exact ⟨hc, hk, fun env who => C03_claim_only_buyer hl hs hc⟩

/-- non-vacuity of `C03_claim_only_buyer_reach`: the sold listing 3 of the sample state -/
example : (findById 3 C03REx.wSold.mkt.listings).map (fun p => (p.1, p.2.status)) =
    some ((2, 3), .closed) := by decide

/-- "… the seller cannot take the goods back", in every reachable state: once a listing has a
    claimant, `DeleteListing` is refused for every sender at every time. -/
theorem C03_no_delete_after_sale_reach (h0 : w0.mkt = instantiate t r) (ops : List Op) {lid : Nat}
    {k : Nat × Nat} {l : Listing} {c : Nat}
    (hl : findById lid (run w0 ops).mkt.listings = some (k, l)) (hc : l.claimant = some c)
    (env : Env) (who : Nat) : ∃ e, deleteListing (run w0 ops).mkt env who lid = .error e :=
  C03_no_delete_after_sale (closed_ids h0 ops) hl hc env who

/-- non-vacuity of `C03_no_delete_after_sale_reach`: the sold listing has claimant 2; the old
    seller's delete is refused -/
example : (findById 3 C03REx.wSold.mkt.listings).map (fun p => p.2.claimant) = some (some 2) ∧
    C12Ex.errOf (deleteListing C03REx.wSold.mkt C03REx.wSold.env 1 3) = some .notFound := by decide

/-- "the seller the only party able to claim the bucket's goods", in every reachable state: a
    bucket filed under `(seller, bid)` can be withdrawn by `seller` and by nobody else, and nobody
    else can pay with it. -/
theorem C03_claim_only_seller_reach (h0 : w0.mkt = instantiate t r) (ops : List Op)
    {seller bid : Nat} {b : Bucket}
    (hb : alookup (seller, bid) (run w0 ops).mkt.buckets = some b) (env : Env) (who : Nat) :
    ((∃ r, withdrawBucket (run w0 ops).mkt env who bid = .ok r) ↔ who = seller) ∧
    (∀ lid, (∃ r, buy (run w0 ops).mkt env who lid bid = .ok r) → who = seller) :=
  C03_claim_only_seller (closed_ids h0 ops) hb env who

/-- non-vacuity of `C03_claim_only_seller_reach`: the re-filed bucket (1, 8) after the sale -/
example : (alookup (1, 8) C03REx.wSold.mkt.buckets).isSome = true := by decide

/-! ### 3. "Each is claimable exactly once" -/

/-- the purchased goods are claimable exactly once, from any reachable state: an accepted
    `WithdrawPurchased` removes the listing, after which every further claim and every purchase
    of that id is refused — for every sender and at every later time.  (`IdsInv` and `WFInv`
    discharged by `C09_reach` / `C12_reach`.) -/
theorem C03_claim_once_listing_reach (h0 : w0.mkt = instantiate t r) (ops : List Op) {m' : Market}
    {env : Env} {who lid : Nat} {out : List OutMsg}
    (h : withdrawPurchased (run w0 ops).mkt env who lid = .ok (m', out)) :
    findById lid m'.listings = none ∧
    (∀ env' who', ∃ e, withdrawPurchased m' env' who' lid = .error e) ∧
    (∀ env' buyer bid, ∃ e, buy m' env' buyer lid bid = .error e) :=
  C03_claim_once_listing (closed_ids h0 ops) (closed_wf0 h0 ops) h

/-- non-vacuity of `C03_claim_once_listing_reach`: buyer 2's claim is accepted after the sale;
    computed, the second claim of the same goods is refused -/
example : C12Ex.errOf (withdrawPurchased C03REx.wSold.mkt C03REx.wSold.env 2 3) = none ∧
    (step (step C03REx.wSold (.exec 2 [] (.withdrawPurchased 3))).1
      (.exec 2 [] (.withdrawPurchased 3))).2.ok = false := by decide

/-- the bucket's goods are claimable exactly once, from any reachable state: an accepted
    `RemoveBucket` removes the bucket, after which nobody can withdraw it again or pay with it. -/
theorem C03_claim_once_bucket_reach (h0 : w0.mkt = instantiate t r) (ops : List Op) {m' : Market}
    {env : Env} {who bid : Nat} {out : List OutMsg}
    (h : withdrawBucket (run w0 ops).mkt env who bid = .ok (m', out)) :
    (∀ env' who', ∃ e, withdrawBucket m' env' who' bid = .error e) ∧
    (∀ env' who' lid, ∃ e, buy m' env' who' lid bid = .error e) :=
  C03_claim_once_bucket (closed_ids h0 ops) h

/-- non-vacuity of `C03_claim_once_bucket_reach`: the seller takes the proceeds after the sale;
    computed, a second withdrawal is refused -/
example : C12Ex.errOf (withdrawBucket C03REx.wSold.mkt C03REx.wSold.env 1 8) = none ∧
    (step (step C03REx.wSold (.exec 1 [] (.removeBucket 8))).1
      (.exec 1 [] (.removeBucket 8))).2.ok = false := by decide

/-! ### 4. "a listing is sold at most once" -/

/-- (a) a purchase accepted in any reachable state puts the listing into the absorbing state
    `SoldOut` (its id is logged and every live record carrying it is closed), which every
    accepted message preserves (`C03_sold_stays`) and in which every purchase is refused
    (`C03_sold_refuses`). -/
theorem C03_sold_after_buy_reach (h0 : w0.mkt = instantiate t r) (ops : List Op) {m' : Market}
    {env : Env} {buyer lid bid : Nat} {out : List OutMsg}
    (h : buy (run w0 ops).mkt env buyer lid bid = .ok (m', out)) : SoldOut m' lid :=
  C03_sold_after_buy (closed_ids h0 ops) h

example {m' : Market} {out : List OutMsg} (h : buy C03REx.w.mkt C03REx.w.env 2 3 8 = .ok (m', out)) :=
  C03_sold_after_buy_reach (w0 := AcctEx.w0) rfl C03REx.ops h

/-- `SoldOut` is the "closed, or used and gone" state, in every reachable state: the listing with
    that id is closed, or the id is logged as used and no live listing carries it.  (No
    hypothesis other than reachability; both sides occur — see the examples.) -/
theorem C03_soldOut_iff_reach (h0 : w0.mkt = instantiate t r) (ops : List Op) (lid : Nat) :
    SoldOut (run w0 ops).mkt lid ↔
      (∃ k l, findById lid (run w0 ops).mkt.listings = some (k, l) ∧ l.status = .closed) ∨
      (lid ∈ (run w0 ops).mkt.listingUsed ∧ findById lid (run w0 ops).mkt.listings = none) :=
  C03_soldOut_iff (closed_ids h0 ops) lid

/-- both sides occur: listing 3 is closed after the sale (left disjunct holds), and is neither
    closed nor gone before it -/
example : (∃ k l, findById 3 C03REx.wSold.mkt.listings = some (k, l) ∧ l.status = .closed) ∧
    ¬ ((∃ k l, findById 3 C03REx.w.mkt.listings = some (k, l) ∧ l.status = .closed) ∨
       (3 ∈ C03REx.w.mkt.listingUsed ∧ findById 3 C03REx.w.mkt.listings = none)) := by
  refine ⟨⟨_, _, rfl, rfl⟩, ?_⟩
  rintro (⟨k, l, h, hs⟩ | ⟨_, h⟩)
  · have : findById 3 C03REx.w.mkt.listings = some ((1, 3), { AcctEx.lst with
        finalizedAt := some (100 * NS), expiresAt := some (700 * NS) }) := by decide
    rw [this] at h
    cases h
    cases hs
  · revert h; decide

/-- "under every ordering of competing purchases, deletions and withdrawals a listing is sold at
    most once": after a purchase transaction of `lid` accepted in any reachable state, every
    purchase transaction for `lid` — any sender, any bucket, any attached coins — at any later
    point of any continuation is refused. -/
theorem C03_second_buy_refused_reach (h0 : w0.mkt = instantiate t r) (ops : List Op) {s : Nat}
    {f : List Coin} {lid bid : Nat}
    (hok : (step (run w0 ops) (.exec s f (.buy lid bid))).2.ok = true)
    (ops' : List Op) (s' : Nat) (f' : List Coin) (bid' : Nat) :
    (step (run (step (run w0 ops) (.exec s f (.buy lid bid))).1 ops')
      (.exec s' f' (.buy lid bid'))).2.ok = false :=
  C03_second_buy_refused (closed_ids h0 ops) hok ops' s' f' bid'

/-- non-vacuity of `C03_second_buy_refused_reach`: the purchase transaction is accepted -/
example : (step C03REx.w (.exec 2 [] (.buy 3 8))).2.ok = true := by decide

/-! ### 5. "losing buyers keep their buckets intact" -/

/-- a purchase refused in a reachable state leaves the whole world unchanged; in particular the
    losing buyer's bucket is still there with the same contents — and, the state being
    reachable, the loser can still take it out: `RemoveBucket` of that bucket is accepted for
    him (the bucket stored under `(b2, bid2)` is owned by `b2`, `C09_reach`). -/
theorem C03_loser_intact_reach (h0 : w0.mkt = instantiate t r) (ops : List Op) {b2 : Nat}
    {f : List Coin} {lid bid2 : Nat}
    (h : (step (run w0 ops) (.exec b2 f (.buy lid bid2))).2.ok = false) :
    (step (run w0 ops) (.exec b2 f (.buy lid bid2))).1 = run w0 ops ∧
    alookup (b2, bid2) (step (run w0 ops) (.exec b2 f (.buy lid bid2))).1.mkt.buckets =
      alookup (b2, bid2) (run w0 ops).mkt.buckets ∧
    ∀ x, alookup (b2, bid2) (run w0 ops).mkt.buckets = some x → ∀ env,
      ∃ res, withdrawBucket (step (run w0 ops) (.exec b2 f (.buy lid bid2))).1.mkt env b2 bid2 =
        .ok res := by
  obtain ⟨h1, h2⟩ := C03_loser_intact h
  refine ⟨h1, h2, fun x hx env => ?_⟩
  rw [h1]
  exact withdrawBucket_ok_iff.2 ⟨x, hx, (reach_bucket h0 ops hx).1⟩

/-- non-vacuity of `C03_loser_intact_reach`: the bystander's purchase with the non-matching
    bucket 9 is refused, before and after the sale -/
example : (step C03REx.w (.exec 5 [] (.buy 3 9))).2.ok = false ∧
    (step C03REx.wSold (.exec 5 [] (.buy 3 9))).2.ok = false ∧
    (alookup (5, 9) C03REx.w.mkt.buckets).isSome = true := by decide

/-- the *winner's* purchase, accepted in a reachable state, does not touch the losers' buckets
    either: every bucket other than the one paid with is stored, unchanged, under the same key
    afterwards. -/
theorem C03_loser_untouched_reach (h0 : w0.mkt = instantiate t r) (ops : List Op) {buyer : Nat}
    {f : List Coin} {lid bid : Nat}
    (hok : (step (run w0 ops) (.exec buyer f (.buy lid bid))).2.ok = true)
    {b2 bid2 : Nat} {x : Bucket} (hx : alookup (b2, bid2) (run w0 ops).mkt.buckets = some x)
    (hne : (b2, bid2) ≠ (buyer, bid)) :
    alookup (b2, bid2) (step (run w0 ops) (.exec buyer f (.buy lid bid))).1.mkt.buckets = some x :=
  C03_loser_untouched (closed_ids h0 ops) hok hx hne

/-- non-vacuity of `C03_loser_untouched_reach`: the bystander's bucket (5, 9) while buyer 2 buys;
    computed: it is the same record afterwards -/
example : (step C03REx.w (.exec 2 [] (.buy 3 8))).2.ok = true ∧
    (alookup (5, 9) C03REx.w.mkt.buckets).isSome = true ∧ ((5, 9) : Nat × Nat) ≠ (2, 8) ∧
    alookup (5, 9) (step C03REx.w (.exec 2 [] (.buy 3 8))).1.mkt.buckets =
      alookup (5, 9) C03REx.w.mkt.buckets := by decide

end

/-! ## axioms -/

#print axioms C03_swap_reach
#print axioms C03_swap_claims_reach
#print axioms C03_claim_only_buyer_reach
#print axioms C03_no_delete_after_sale_reach
#print axioms C03_claim_only_seller_reach
#print axioms C03_claim_once_listing_reach
#print axioms C03_claim_once_bucket_reach
#print axioms C03_sold_after_buy_reach
#print axioms C03_soldOut_iff_reach
#print axioms C03_second_buy_refused_reach
#print axioms C03_loser_intact_reach
#print axioms C03_loser_untouched_reach

end Fuzion
