def hello := "world"
