import Fuzion.Driver.Run
def main : IO Unit := do
  let hin ← IO.getStdin
  let hout ← IO.getStdout
  Fuzion.Run.loop hin hout {} [] 1
