#!/bin/sh
# Builds the Lean project and the Rust harness offline. Safe to re-run.
set -e
cd "$(dirname "$0")"
exec ./check --setup
